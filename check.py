#!/venv/bin/python
"""One CLI for every property, tier and replay.

    /venv/bin/python check.py C02 --tier quick
    /venv/bin/python check.py C02 --replay replays/C02/x.json

Exit 0: property held on everything explored.  Exit 1 + "VIOLATION property=<id>
replay=<path>": violation not listed in KNOWN_FINDINGS.txt.  Exit 2: harness error.
Environment: VERIF_SEED (int, default 1), VERIF_TIER (quick|thorough),
VERIF_REPO (default /repo: the tree whose *working copy* is imported),
VERIF_OUT (default /verif: where evidence/ and replays/<id>/new/ are written).
"""
import argparse
import os
import subprocess
import sys

HERE = os.path.dirname(os.path.abspath(__file__))


def _ensure_env():
    # a run is a pure function of the code and VERIF_SEED: pin hash randomisation
    if os.environ.get("PYTHONHASHSEED") != "0":
        env = dict(os.environ, PYTHONHASHSEED="0")
        os.execve(sys.executable, [sys.executable] + sys.argv, env)


def _ensure_deps():
    try:
        import hypothesis  # noqa
    except ImportError:
        subprocess.run([sys.executable, "-m", "pip", "install", "-q", "--no-index", "--find-links",
                        "/opt/veriftools/wheels", "hypothesis"], check=False)
        import hypothesis  # noqa


def main():
    _ensure_env()
    ap = argparse.ArgumentParser()
    ap.add_argument("property")
    ap.add_argument("--tier", default=os.environ.get("VERIF_TIER", "quick"),
                    choices=["quick", "thorough"])
    ap.add_argument("--replay")
    ap.add_argument("--sub")
    ap.add_argument("--examples", type=int)
    ap.add_argument("--workers", type=int)
    args = ap.parse_args()
    try:
        seed = int(os.environ.get("VERIF_SEED", "1"))
    except ValueError:
        seed = 1

    repo = os.path.abspath(os.environ.get("VERIF_REPO", "/repo"))
    deps = os.path.join(HERE, ".deps")
    sys.path[:0] = [repo, HERE] + ([deps] if os.path.isdir(deps) else [])
    sys.dont_write_bytecode = True
    os.environ.setdefault("MPLBACKEND", "Agg")
    _ensure_deps()
    try:
        import swcgeom  # noqa

        got = os.path.abspath(os.path.dirname(os.path.dirname(swcgeom.__file__)))
        if got != repo:
            print(f"HARNESS-ERROR: swcgeom imported from {got}, expected {repo}", file=sys.stderr)
            return 2
        from vlib import harness
    except Exception as e:  # noqa
        import traceback

        traceback.print_exc()
        print(f"HARNESS-ERROR: cannot import: {e}", file=sys.stderr)
        return 2

    prop = args.property.upper()
    if args.replay:
        try:
            v = harness.replay_file(prop, args.replay)
        except harness.HarnessError as e:
            print("HARNESS-ERROR:", e, file=sys.stderr)
            return 2
        if v is None:
            print(f"[{prop}] replay passed: {args.replay}")
            return 0
        known = harness.load_known(prop)
        if v.sig in known:
            print(f"KNOWN-FINDING: property={prop} sig={v.sig} {known[v.sig]}")
            return 0
        print(f"VIOLATION property={prop} replay={args.replay}")
        print(f"  signature: {v.sig}\n  message:   {v.msg[:600]}")
        return 1
    return harness.main_check(prop, args.tier, seed, only_sub=args.sub,
                              n_override=args.examples, workers=args.workers)


if __name__ == "__main__":
    sys.exit(main())
