"""C20 — Image stacks survive save/load, and rasterised trees match their geometry."""
import math
import os

import numpy as np
from hypothesis import strategies as st

from vlib import gen_tree, models
from vlib.harness import Sub

PROPERTY = "C20"
RULE = (
    "(stack) arrays of shape (X, Y, Z) or (X, Y, Z, C) with every axis 1-6, C in {1, 3}, dtype in {uint8, uint16, float32, "
    "float64}, values = an index-encoding pattern (so that any axis swap changes values) or a seeded random pattern "
    "(floats in [0, 1]); save dtype in {None, uint8, uint16, float32} (narrowing integer casts excluded), read dtype in "
    "{uint8, uint16, float32, float64}; compression on / off; written as TIFF via save_tiff (array or ImageStack "
    "argument), NRRD via nrrd.write, NPY via np.save, all read through read_imgs. Oracle: shape (X, Y, Z, C) of the "
    "input; values = the input passed through the documented rescaling model (uint -> float: / max, float -> uint: "
    "* max with truncation, otherwise cast), exact for lossless paths and within one integer level per truncation / "
    "float32 rounding otherwise. (raster) trees of 2-6 nodes inside +-8 with radii 0.3-3, resolution in {0.5, 1, 2, "
    "anisotropic}: shape (Z, X, Y) with one sample per voxel centre floor(min) + res/2 + k*res below ceil(max); a voxel is "
    "255 iff its centre is inside the union of the round cones of the edges (reference: max over t of r(t) - |p - c(t)| "
    "in closed form), voxels with |margin| < 1e-3 excepted and counted; transform_and_save + read_imgs gives the same "
    "array; in a quarter of the cases the region is given by the caller (ranges=(lo, hi) as list / tuple / float64 / float32 "
    "array / integers, around the bounding box): one sample per voxel centre lo + res/2 + k*res below hi, same membership "
    "rule, the caller's objects unchanged and a second raster of the same region identical. Non-trivial: (stack) >= 3 distinct axis lengths or a size-1 axis, with a dtype conversion; (raster) "
    "anisotropic resolution or a tapering edge."
)
ASSUMPTIONS = [
    "float stacks hold values in [0, 1] (the documented assumption of the rescaling)",
    "narrowing integer casts (uint16 -> uint8) are not exercised: the documentation only speaks of integer <-> float scaling",
    "a voxel whose centre is within 1e-3 of a surface is not compared",
]

DT = ["uint8", "uint16", "float32", "float64"]
UMAX = {"uint8": 255, "uint16": 65535}


@st.composite
def stack_strategy(draw, tier):
    dims = [draw(st.integers(1, 6)) for _ in range(3)]
    c = draw(st.sampled_from([None, 1, 3]))
    dtype = draw(st.sampled_from(DT))
    big = draw(st.integers(0, 250 if tier == "quick" else 120)) == 0
    if big:
        # a stack of a few million voxels (what a rasterised neuron or a confocal tile is): sizes that are no multiple of
        # any round block depth
        dims = draw(st.sampled_from([[128, 128, 130], [64, 256, 133], [130, 128, 129], [200, 200, 53], [33, 1024, 65]]))
        c = draw(st.sampled_from([None, 1]))
        dtype = draw(st.sampled_from(["float32", "uint8", "uint16"]))
    fmt = draw(st.sampled_from(["tiff", "tiff", "tif-stack", "nrrd", "npy"]))
    save = draw(st.sampled_from([None, None, "uint8", "uint16", "float32"])) if fmt in ("tiff", "tif-stack") else None
    stored = save or dtype
    if dtype == "uint16" and save == "uint8":
        save = None
        stored = dtype
    read = draw(st.sampled_from(DT))
    if stored == "uint16" and read == "uint8":
        read = "uint16"
    return {"dims": dims, "c": c, "dtype": dtype, "fmt": fmt, "save": save, "read": read,
            "pattern": "index" if big else draw(st.sampled_from(["index", "index", "random"])),
            # how the caller's array lies in memory: C order, Fortran order, or a transposed / strided view of a bigger array
            "layout": draw(st.sampled_from(["C", "C", "F", "transposed-view", "strided-view"])), "seed": draw(st.integers(0, 2 ** 31 - 1)),
            "compression": draw(st.booleans())}


def _make_array(case):
    shape = tuple(case["dims"]) + ((case["c"],) if case["c"] else ())
    dt = np.dtype(case["dtype"])
    idx = np.indices(shape)
    code = idx[0] * 7 + idx[1] * 13 + idx[2] * 29 + (idx[3] * 53 if len(shape) == 4 else 0) + 1
    if case["pattern"] == "random":
        rs = np.random.RandomState(case["seed"])
        if dt.kind == "u":
            return rs.randint(0, UMAX[case["dtype"]] + 1, size=shape).astype(dt)
        v = rs.rand(*shape)
        v.flat[0] = 0.0
        v.flat[-1] = 1.0
        return v.astype(dt)
    if dt.kind == "u":
        return ((code * (1 if case["dtype"] == "uint8" else 257)) % (UMAX[case["dtype"]] + 1)).astype(dt)
    return ((code % 251) / 250.0).astype(dt)


def _convert(v, tol, src, dst):
    """Documented rescaling model on float64 values with an error budget in units of the destination."""
    sk, dk = np.dtype(src).kind, np.dtype(dst).kind
    if src == dst:
        return v, tol
    if sk == "f" and dk == "u":
        m = UMAX[dst]
        return np.floor(v * m + 1e-9), tol * m + 1.0
    if sk == "u" and dk == "f":
        m = UMAX[src]
        out = v / m
        return out, tol / m + 2e-7 * (1 + np.abs(out))
    if sk == "f" and dk == "f":
        return v, tol + (2e-7 * (1 + np.abs(v)) if dst == "float32" else 0)
    return v, tol  # widening uint


def run_stack(case, ctx):
    import nrrd

    from swcgeom.images.io import NDArrayImageStack, read_imgs, save_tiff

    arr = _make_array(case)
    layout = case.get("layout", "C")
    if layout == "F":
        arr = np.asfortranarray(arr)
    elif layout == "transposed-view":
        arr = np.ascontiguousarray(np.swapaxes(arr, 0, 2)).swapaxes(0, 2)  # same values, a (Z,Y,X[,C])-ordered buffer seen as (X,Y,Z[,C])
    elif layout == "strided-view":
        big_buf = np.zeros((arr.shape[0] * 2,) + arr.shape[1:], dtype=arr.dtype)
        big_buf[::2] = arr
        arr = big_buf[::2]
    if layout != "C" and arr.size > 1:
        ctx.cls("array-not-c-contiguous")
    shape4 = tuple(case["dims"]) + (case["c"] or 1,)
    fmt, save, read = case["fmt"], case["save"], case["read"]
    stored = save or case["dtype"]
    conv = (stored != case["dtype"]) or (read != stored)
    dims = case["dims"]
    ctx.cls("fmt:" + fmt, f"dtype:{case['dtype']}", f"save:{save}", f"read:{read}", "converted" if conv else "same-dtype",
            "channels:" + str(case["c"]), "size-1-axis" if 1 in dims else "no-size-1-axis",
            f"path:{np.dtype(stored).kind}->{np.dtype(read).kind}")
    ctx.nontrivial((len(set(dims)) == 3 or 1 in dims) and conv)
    if dims[0] * dims[1] * dims[2] > 2 ** 21:
        ctx.cls("stack-of-more-than-2Mi-voxels")
        if save:
            ctx.cls("large-stack-saved-with-a-dtype")
    path = os.path.join(ctx.tmpdir, "img." + {"tiff": "tif", "tif-stack": "tiff", "nrrd": "nrrd", "npy": "npy"}[fmt])
    if os.path.exists(path):
        os.remove(path)
    keep = arr.copy()
    if fmt in ("tiff", "tif-stack"):
        data = arr if fmt == "tiff" else NDArrayImageStack(arr)
        kw = {} if case["compression"] else {"compression": False}
        if save:
            kw["dtype"] = np.dtype(save).type
        ctx.lib("save_tiff", save_tiff, data, path, **kw)
    elif fmt == "nrrd":
        nrrd.write(path, arr)
    else:
        np.save(path, arr)
    ctx.check(np.array_equal(arr, keep), "stack/input-unchanged", "the array handed to the writer was modified")
    st_ = ctx.lib(f"read_imgs[{np.dtype(stored).kind}->{np.dtype(read).kind}]", read_imgs, path, dtype=np.dtype(read).type)
    got = ctx.lib("get_full", st_.get_full)
    ctx.check(tuple(got.shape) == shape4, "stack/shape-is-(X,Y,Z,C)", lambda: f"{tuple(got.shape)} vs {shape4} ({fmt}, input shape {arr.shape})")
    ctx.check(tuple(st_.shape) == shape4, "stack/shape-property", f"{st_.shape}")
    ctx.check(np.dtype(got.dtype) == np.dtype(read), "stack/dtype", lambda: f"{got.dtype} vs {read}")
    want = arr.reshape(shape4).astype(np.float64)
    tol = np.zeros_like(want)
    want, tol = _convert(want, tol, case["dtype"], stored)
    if np.dtype(stored).kind == "f":
        want = want.astype(np.dtype(stored)).astype(np.float64)
    want, tol = _convert(want, tol, stored, read)
    err = np.abs(got.astype(np.float64) - want)
    bad = err > tol + 1e-12
    ctx.check(not bad.any(), "stack/values-survive-up-to-the-documented-rescaling",
              lambda: f"{int(bad.sum())} of {bad.size} voxels differ; first at {tuple(int(v) for v in np.argwhere(bad)[0])}: "
                      f"got {got[tuple(np.argwhere(bad)[0])]!r}, expected {want[tuple(np.argwhere(bad)[0])]!r} "
                      f"(+-{tol[tuple(np.argwhere(bad)[0])]:.3g}); {case['dtype']} -save-> {stored} -read-> {read}, {fmt}")
    # spot indexing agrees with the full array
    k = tuple(d - 1 for d in shape4)
    ctx.check(st_[k] == got[k], "stack/indexing", "")


# ----------------------------------------------------------------------------- rasterisation
@st.composite
def raster_strategy(draw, tier):
    n = draw(st.integers(2, 6))
    shape = draw(st.sampled_from(["chain", "uniform", "star"]))
    parents = draw(gen_tree.parents_of_shape(n, shape))
    co = st.integers(-64, 64).map(lambda v: v / 8.0)
    xyz = [[draw(co), draw(co), draw(co)] for _ in range(n)]
    r = [draw(st.integers(5, 48)) / 16.0 for _ in range(n)]
    if draw(st.integers(0, 5)) == 0:
        # a node of radius zero (SWC files have them): the cones next to it taper to a point
        r[draw(st.integers(0, n - 1))] = 0.0
    # resolutions are binary fractions (voxel centres add up exactly); several do not divide the bounding box evenly
    res = draw(st.sampled_from([0.5, 1, 1, 2, [1, 2, 0.5], [0.5, 1, 2], [2, 1, 1], 1.5, 0.75, 2.5, [1, 1, 1.5], [1, 1, 3.5], [1.5, 1, 2.5]]))
    save = draw(st.integers(0, 3)) == 0
    if draw(st.integers(0, 5)) == 0:
        # a planar tracing (all nodes in one z plane, thin): stacks of one or two slices, or of none at all
        z = draw(co)
        xyz = [[p[0], p[1], z] for p in xyz]
        r = [draw(st.integers(5, 14)) / 16.0 for _ in range(n)]
        res = draw(st.sampled_from([2, 2, 1, [1, 1, 2], [0.5, 1, 2]]))
        save = draw(st.integers(0, 1)) == 0
    if n > 2 and draw(st.booleans()):
        # any numbering that keeps the root at 0: children may be listed before their parents
        parents, _ = gen_tree.permute_keep_root(parents, list(draw(st.permutations(list(range(1, n))))))
    case = {"parents": parents, "xyz": xyz, "r": r, "res": res, "save": save,
            # the same rasteriser object has already rasterised this very tree object, which was then edited in place
            "raster_before": draw(st.sampled_from([None, None, None, "columns", "handles"])),
            # the rasteriser object rasterised another neuron, then a save of this one failed (no such directory) and was
            # caught by the caller
            "failed_save_before": draw(st.integers(0, 4)) == 0,
            # saving with the progress display on (the default of transform_and_save) or off
            "verbose": draw(st.booleans())}
    if draw(st.integers(0, 3)) == 0:
        # the region to rasterise is given by the caller (a common box for several neurons), as any array-like, and the
        # same objects are handed over again for a second raster
        case["ranges"] = {"dlo": [draw(st.integers(-3, 3)) / 2.0 for _ in range(3)], "dhi": [draw(st.integers(-3, 3)) / 2.0 for _ in range(3)],
                          "form": draw(st.sampled_from(["list", "tuple", "float64", "float32", "float32", "int-list"]))}
    return case


def _margin(P, a, b, ra, rb):
    """max over t in [0,1] of r(t) - |p - c(t)| for all points P (N,3)."""
    d = b - a
    L = float(np.linalg.norm(d))
    q = P - a
    if L == 0:
        return max(ra, rb) - np.linalg.norm(q, axis=1)
    u = d / L
    s = q @ u
    rho = np.sqrt(np.maximum(np.sum(q * q, axis=1) - s * s, 0.0))
    k = (rb - ra) / L

    def g(tau):
        return ra + k * tau - np.sqrt((s - tau) ** 2 + rho ** 2)

    best = np.maximum(g(np.zeros_like(s)), g(np.full_like(s, L)))
    if abs(k) < 1:
        tau = np.clip(s + k * rho / math.sqrt(1 - k * k), 0.0, L)
        best = np.maximum(best, g(tau))
    return best


def run_raster(case, ctx):
    from swcgeom.core import Tree
    from swcgeom.images.io import read_imgs
    from swcgeom.transforms import ToImageStack

    parents, n = case["parents"], len(case["parents"])
    xyz = np.array(case["xyz"], dtype=np.float32)
    r = np.array(case["r"], dtype=np.float32)
    tree = Tree(n, id=np.arange(n, dtype=np.int32), pid=np.array(parents, dtype=np.int32),
                type=np.array([1] + [3] * (n - 1), dtype=np.int32), x=xyz[:, 0], y=xyz[:, 1], z=xyz[:, 2], r=r)
    res = case["res"]
    shared_rasteriser = None
    if any(p > i for i, p in enumerate(parents)):
        ctx.cls("numbering-with-a-child-before-its-parent")
    if case.get("raster_before"):
        tree = Tree(n, id=np.arange(n, dtype=np.int32), pid=np.array(parents, dtype=np.int32),
                    type=np.array([1] + [3] * (n - 1), dtype=np.int32), x=xyz[:, 0] * np.float32(0.5) + np.float32(1.0),
                    y=xyz[:, 1] * np.float32(0.5), z=xyz[:, 2] * np.float32(0.5) - np.float32(2.0), r=r * np.float32(0.5) + np.float32(0.25))
        shared_rasteriser = ToImageStack(res)
        try:
            shared_rasteriser(tree)
        except (KeyboardInterrupt, SystemExit):
            raise
        except BaseException:  # noqa - the earlier pose may be too thin for a voxel centre; only the second raster is judged
            pass
        for k, c in enumerate("xyz"):
            if case["raster_before"] == "columns":
                tree.get_ndata(c)[:] = xyz[:, k]
            else:
                for i in range(n):
                    setattr(tree.node(i), c, xyz[i, k])
        tree.get_ndata("r")[:] = r
        ctx.cls("rasterised-before-then-edited-in-place")
    if case.get("failed_save_before"):
        import contextlib
        import io as _io2

        shared_rasteriser = shared_rasteriser or ToImageStack(res)
        other = Tree(3, id=np.arange(3, dtype=np.int32), pid=np.array([-1, 0, 1], dtype=np.int32), type=np.array([1, 3, 3], dtype=np.int32),
                     x=np.array([40.0, 43.0, 43.0], dtype=np.float32), y=np.array([0.0, 0.0, 3.0], dtype=np.float32),
                     z=np.array([5.0, 5.0, 6.0], dtype=np.float32), r=np.array([1.0, 1.5, 1.0], dtype=np.float32))
        with contextlib.redirect_stdout(_io2.StringIO()), contextlib.redirect_stderr(_io2.StringIO()):
            try:
                shared_rasteriser(other)
                shared_rasteriser.transform_and_save(os.path.join(ctx.tmpdir, "no-such-folder", "deeper", "x.tif"), tree, verbose=False)
            except (KeyboardInterrupt, SystemExit):
                raise
            except BaseException:  # noqa
                pass
        ctx.cls("rasterised-after-a-failed-save")
    if float(r.min()) == 0.0:
        ctx.cls("raster:zero-radius-node")
    res3 = np.array([res] * 3 if not isinstance(res, list) else res, dtype=np.float64)
    aniso = isinstance(res, list)
    taper = any(p != -1 and r[i] != r[p] for i, p in enumerate(parents))
    if any(float(v) not in (0.5, 1.0, 2.0) for v in res3):
        ctx.cls("resolution-not-dividing-the-box")
    ctx.cls("res:aniso" if aniso else f"res:{res}", "taper" if taper else "no-taper", "saved" if case["save"] else "in-memory")
    ctx.nontrivial(aniso or taper)
    X = xyz.astype(np.float64)
    R = r.astype(np.float64)
    lo = np.floor((X - R[:, None]).min(axis=0))
    hi = np.ceil((X + R[:, None]).max(axis=0))
    rg = case.get("ranges")
    ranges = None
    if rg:
        lo = lo + np.array(rg["dlo"])
        hi = np.maximum(hi + np.array(rg["dhi"]), lo + 2 * res3)
        if rg["form"] == "int-list":
            lo, hi = np.floor(lo), np.ceil(hi)
        mk = {"list": lambda v: [float(q) for q in v], "tuple": lambda v: tuple(float(q) for q in v),
              "float64": lambda v: np.array(v, dtype=np.float64), "float32": lambda v: np.array(v, dtype=np.float32),
              "int-list": lambda v: [int(q) for q in v]}[rg["form"]]
        ranges = (mk(lo), mk(hi))
        ctx.cls("region-given-by-the-caller", "region-as:" + rg["form"])
    centres = []
    for k in range(3):
        c = []
        v = lo[k] + res3[k] / 2
        while v < hi[k]:
            c.append(v)
            v += res3[k]
        centres.append(np.array(c))
    near_edge = any(len(c) and abs(c[-1] + res3[k] - hi[k]) < 1e-6 for k, c in enumerate(centres))
    if any(len(c) == 0 for c in centres):
        # the bounding box is thinner than half a voxel along some axis, so no voxel centre lies inside it: the
        # statement does not say what the stack of zero samples is; a loud refusal or an empty stack are both accepted
        ctx.ambiguous("no-voxel-centre-inside-the-bounding-box-along-an-axis")
        ctx.cls("raster:no-sample-along-an-axis")
        try:
            stack = ToImageStack(res)(tree)
        except (KeyboardInterrupt, SystemExit):
            raise
        except BaseException:  # noqa - loud refusal (the sampler's PanicException derives from BaseException)
            return
        ctx.check(stack.size == 0, "raster/empty-grid-yields-empty-stack",
                  lambda: f"shape {tuple(stack.shape)} although no voxel centre lies inside {lo.tolist()}..{hi.tolist()} at {res3.tolist()}")
        return
    if ranges is None:
        stack = ctx.lib("ToImageStack", lambda: (shared_rasteriser or ToImageStack(res))(tree))
    else:
        rasteriser = shared_rasteriser or ToImageStack(res)
        stack = ctx.lib("ToImageStack.transform[ranges]", lambda: np.stack(list(rasteriser.transform(tree, verbose=False, ranges=ranges)), axis=0))
        ctx.check(np.array_equal(np.asarray(ranges[0], dtype=np.float64), lo) and np.array_equal(np.asarray(ranges[1], dtype=np.float64), hi),
                  "raster/region-given-by-the-caller-is-left-unchanged", lambda: f"{ranges} vs {lo.tolist()}..{hi.tolist()}")
        again = ctx.lib("ToImageStack.transform[ranges]", lambda: np.stack(list(rasteriser.transform(tree, verbose=False, ranges=ranges)), axis=0))
        ctx.check(again.shape == stack.shape and np.array_equal(again, stack), "raster/same-region-same-raster-when-asked-again",
                  lambda: f"shape {again.shape} vs {stack.shape}, {int((again != stack).sum()) if again.shape == stack.shape else '?'} voxels differ")
    if stack.shape[0] == 1:
        ctx.cls("raster:single-slice")
    want_shape = (len(centres[2]), len(centres[0]), len(centres[1]))
    ctx.check(tuple(stack.shape) == want_shape, "raster/shape-is-(Z,X,Y)-one-sample-per-voxel-centre",
              lambda: f"{tuple(stack.shape)} vs {want_shape}; bounding box {lo.tolist()}..{hi.tolist()}, resolution {res3.tolist()}")
    ctx.check(stack.dtype == np.uint8 and set(np.unique(stack).tolist()) <= {0, 255}, "raster/values-are-0-or-255",
              lambda: f"{stack.dtype} {np.unique(stack).tolist()[:5]}")
    gx, gy, gz = np.meshgrid(centres[0], centres[1], centres[2], indexing="ij")
    P = np.stack([gx.ravel(), gy.ravel(), gz.ravel()], axis=1)
    margin = np.full(len(P), -np.inf)
    for i, p in enumerate(parents):
        if p != -1:
            margin = np.maximum(margin, _margin(P, X[p], X[i], R[p], R[i]))
    margin = margin.reshape(gx.shape)  # (X, Y, Z)
    got = np.moveaxis(stack, 0, 2) == 255  # (X, Y, Z)
    decided = np.abs(margin) >= 1e-3
    n_amb = int((~decided).sum())
    if n_amb:
        ctx.ambiguous("voxel-centre-within-1e-3-of-a-surface")
    bad = decided & (got != (margin > 0))
    ctx.check(not bad.any(), "raster/voxel-lit-iff-centre-inside-a-round-cone",
              lambda: f"{int(bad.sum())} of {bad.size} voxels wrong; first index (x,y,z) {tuple(int(v) for v in np.argwhere(bad)[0])}, "
                      f"centre {[float(centres[k][np.argwhere(bad)[0][k]]) for k in range(3)]}, margin {float(margin[tuple(np.argwhere(bad)[0])]):.4g}, "
                      f"lit={bool(got[tuple(np.argwhere(bad)[0])])}; nodes {X.tolist()} r {R.tolist()} parents {parents} res {res3.tolist()}")
    ctx.check(got.any(), "raster/something-is-lit", "no voxel lit although radii >= 0.3 ... ") if min(res3) <= 0.5 and R.max() >= 1 else None
    if case["save"]:
        path = os.path.join(ctx.tmpdir, "raster.tif")
        if os.path.exists(path):
            os.remove(path)
        import contextlib
        import io as _io

        verbose = bool(case.get("verbose"))
        if verbose:
            ctx.cls("saved-with-the-progress-display-on")
        with contextlib.redirect_stdout(_io.StringIO()), contextlib.redirect_stderr(_io.StringIO()):
            if ranges is None:
                ctx.lib("transform_and_save", lambda: (shared_rasteriser or ToImageStack(res)).transform_and_save(path, tree, verbose=verbose))
            else:
                ctx.lib("transform_and_save[ranges]", lambda: ToImageStack(res).transform_and_save(path, tree, verbose=verbose, ranges=ranges))
        back = ctx.lib("read_imgs", lambda: read_imgs(path, dtype=np.uint8).get_full())
        want = np.moveaxis(stack, 0, 2)[..., None]
        ctx.check(tuple(back.shape) == tuple(want.shape) and np.array_equal(back, want), "raster/saved-tiff-reads-back-the-same",
                  lambda: f"shape {tuple(back.shape)} vs {tuple(want.shape)}")


SUBCHECKS = [
    Sub("stack", stack_strategy, run_stack, quick=6000, thorough=40000, shards_quick=4,
        required={"fmt:tiff": 200, "fmt:tif-stack": 100, "fmt:nrrd": 100, "fmt:npy": 100, "size-1-axis": 200, "converted": 400,
                  "channels:3": 150, "channels:1": 150, "channels:None": 150, "path:f->u": 80, "path:u->f": 80,
                  "stack-of-more-than-2Mi-voxels": 8, "large-stack-saved-with-a-dtype": 1, "array-not-c-contiguous": 1000}),
    Sub("raster", raster_strategy, run_raster, quick=1500, thorough=12000, shards_quick=4,
        required={"res:aniso": 60, "taper": 100, "saved": 30, "res:0.5": 15, "res:2": 15, "raster:single-slice": 20,
                  "region-given-by-the-caller": 150, "region-as:float32": 31, "resolution-not-dividing-the-box": 222,
                  "saved-with-the-progress-display-on": 60,
                  "numbering-with-a-child-before-its-parent": 109, "rasterised-before-then-edited-in-place": 216,
                  "rasterised-after-a-failed-save": 150, "raster:zero-radius-node": 100}),
]
