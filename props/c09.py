"""C09 — Node, path, branch and segment views are faithful windows onto their tree."""
import numpy as np
from hypothesis import strategies as st

from vlib import gen_tree, models
from vlib.harness import Enumerate, Machine, Sub

PROPERTY = "C09"
RULE = (
    "Stateful machine over one tagged tree (1-20 nodes quick / 60 thorough, extra columns tag and w) and a growing set of "
    "derived objects. Rules: take node handles (tree[i] incl. negative and out of range, tree.node, tree[a:b:c], parent(), "
    "children(), soma()), paths, branches, tree segments, branch segments; read every accessor of any object; write an "
    "attribute (x, y, z, r, type, tag, w) through a Tree.Node handle; detach() any view; copy() a tree; write into a "
    "detached object or a copy; index paths / branches with ints, negative ints, slices and column names; adjacency matrix. "
    "Model: one dict of numpy columns per owner (the tree, each copy, each detached object) and, per view, the owner and "
    "the positions it refers to. Oracle: every read through a view equals the owner's model columns at the view's "
    "positions, in order - so a write through a node handle shows in the tree and in every attached view, while a "
    "detached object or a copy has equal content at creation and never changes with, or changes, the original; a branch's "
    "segments are its consecutive node pairs, a tree's segments its (parent, child) pairs in node order; the adjacency "
    "matrix has exactly the parent -> child entries; a Compartments collection assembled from compartments of any owners "
    "(tree segments, segments of several branches, detached ones) reports per row its own compartment's two nodes; out-of-range ints raise IndexError. Invariant after every step: all "
    "owners equal their models and all views read what the model says. Non-trivial: a history with a write, a detach or "
    "copy taken before a later write, and a read of the segments of an attached branch of >= 3 nodes whose ids are not "
    "0..k."
)
ASSUMPTIONS = [
    "write-through is asserted for handles obtained from the tree (Tree.Node); writes through a Path / Branch node are "
    "not asserted either way (get_ndata of a path is a fancy-index copy)",
    "ids are not written; a parent id is only re-assigned so that the table stays a tree (new parent outside the node's subtree), on tree nodes other than the root",
]

COLS = ["id", "type", "x", "y", "z", "r", "pid", "tag", "w"]
WRITABLE = ["x", "y", "z", "r", "type", "tag", "w"]


def init_strategy(tier):
    t = gen_tree.tree_case(min_n=1, max_n=20 if tier == "quick" else 60, regimes=["lattice"], soma_root=True, permute=None)
    # the coordinate / radius columns may be non-contiguous views of one xyzr matrix the caller holds
    return st.tuples(t, st.booleans()).map(lambda v: dict(v[0], strided_columns=v[1]))


I2 = lambda tier: st.lists(st.integers(0, 10 ** 6), min_size=2, max_size=2)  # noqa
I1 = lambda tier: st.integers(0, 10 ** 6)  # noqa
SL = lambda tier: st.lists(st.integers(-25, 25), min_size=4, max_size=4)  # noqa
WR = lambda tier: st.tuples(st.integers(0, 10 ** 6), st.integers(0, 6), st.integers(-400, 400)).map(list)  # noqa


class _Owner:
    def __init__(self, real, cols, kind):
        self.real = real  # object exposing .ndata (Tree / DictSWC)
        self.cols = cols
        self.kind = kind


class _View:
    def __init__(self, kind, real, owner, idx, from_tree):
        self.kind = kind
        self.real = real
        self.owner = owner
        self.idx = [int(v) for v in idx]
        self.from_tree = from_tree  # handle obtained from a Tree (write-through asserted)


class _State:
    def __init__(self, t):
        self.t = t
        tree = gen_tree.build_tree(t, strided=bool(t.get("strided_columns")))
        cols = {k: tree.ndata[k].copy() for k in COLS}
        self.owners = [_Owner(tree, cols, "tree")]
        self.views = []
        self.flags = {"write": False, "detached_then_write": False, "have_detached": False, "attached_branch_segments": False,
                      "negative": False, "slice": False, "mixed_collection": False, "kept_subnode": False,
                      "write_after_kept_subnode": False}


def start(init, ctx):
    return _State(init)


def _val(col, v):
    if col in ("type", "tag"):
        return int(abs(v) % 200)
    if col == "r":
        return float(abs(v) % 160 + 1) / 16.0
    return float(v) / 8.0


def _expect(s, view, col):
    return s.owners[view.owner].cols[col][view.idx]


def _check_view(s, ctx, v):
    o = s.owners[v.owner]
    label = v.kind + ("" if v.from_tree else "(detached)")
    if v.kind == "subnode":  # a node handle taken from a path / branch / compartment: reads only
        i = v.idx[0]
        nd = v.real
        for col in ("type", "x", "y", "z", "r", "tag", "w"):
            got = nd[col]
            ctx.check(got == o.cols[col][i], "node-of-a-view/reads-its-node", lambda: f"{col}: {got} vs {o.cols[col][i]} (position {i})")
        ctx.check((nd.x, nd.y, nd.z, nd.r, nd.type) == tuple(o.cols[c][i] for c in ("x", "y", "z", "r", "type")),
                  "node-of-a-view/properties", "")
        return
    if v.kind == "node":
        i = v.idx[0]
        nd = v.real
        for col in COLS:
            got = nd[col]
            ctx.check(got == o.cols[col][i], f"{label}/reads-its-node", lambda: f"{col}: {got} vs {o.cols[col][i]} (position {i})")
        ctx.check((nd.id, nd.type, nd.x, nd.y, nd.z, nd.r, nd.pid) ==
                  tuple(o.cols[c][i] for c in ("id", "type", "x", "y", "z", "r", "pid")), f"{label}/properties", "")
        ctx.check(nd.xyz().tolist() == [o.cols[c][i] for c in "xyz"] and nd.xyzr().tolist() == [o.cols[c][i] for c in "xyzr"],
                  f"{label}/xyz", "")
        return
    real = v.real
    ctx.check(len(real) == len(v.idx), f"{label}/length", f"{len(real)} vs {len(v.idx)}")
    for col in ("type", "x", "y", "z", "r", "tag", "w"):
        want = _expect(s, v, col)
        got = real.get_ndata(col)
        ctx.check(np.array_equal(got, want), f"{label}/reads-its-nodes-in-order", lambda: f"{col}: {got.tolist()} vs {want.tolist()} (positions {v.idx})")
        ctx.check(np.array_equal(real[col], want), f"{label}/column-by-name", col)
    ctx.check(np.array_equal(real.x(), _expect(s, v, "x")) and np.array_equal(real.r(), _expect(s, v, "r"))
              and np.array_equal(real.type(), _expect(s, v, "type")), f"{label}/accessors", "")
    ctx.check(np.array_equal(real.xyz(), np.stack([_expect(s, v, c) for c in "xyz"], axis=1)), f"{label}/xyz", "")
    ctx.check(np.array_equal(real.xyzr(), np.stack([_expect(s, v, c) for c in "xyzr"], axis=1)), f"{label}/xyzr", "")
    ctx.check(real.origin_id().tolist() == _expect(s, v, "id").tolist(), f"{label}/origin_id", "")
    ctx.check(real.id().tolist() == list(range(len(v.idx))) and real.pid().tolist() == list(range(-1, len(v.idx) - 1)),
              f"{label}/local-ids", "")
    if v.kind == "compartment":
        ctx.check(len(real) == 2, "compartment/two-nodes", f"{len(real)}")


def _add_view(s, ctx, v):
    _check_view(s, ctx, v)
    s.views.append(v)
    if len(s.views) > 40:
        s.views.pop(0)


def apply(s, name, args, ctx):
    tree_owners = [k for k, o in enumerate(s.owners) if o.kind == "tree"]
    if name == "node":
        ok = tree_owners[args[0] % len(tree_owners)]
        o = s.owners[ok]
        n = len(o.cols["id"])
        i = args[1] % (2 * n + 4) - (n + 2)
        how = args[0] % 3
        if -n <= i < n:
            nd = ctx.lib("tree[i]", lambda: o.real[i]) if how != 1 or i < 0 else ctx.lib("tree.node", o.real.node, i)
            if i < 0:
                s.flags["negative"] = True
            _add_view(s, ctx, _View("node", nd, ok, [i % n], True))
        else:
            try:
                o.real[i]
            except IndexError:
                pass
            else:
                ctx.fail("tree/out-of-range-index-accepted", f"tree[{i}] with {n} nodes returned")
    elif name == "slice":
        ok = tree_owners[args[0] % len(tree_owners)]
        o = s.owners[ok]
        n = len(o.cols["id"])
        a, b, c = args[1], args[2], args[3] or 1
        a = None if a == 25 else a
        b = None if b == -25 else b
        nodes = ctx.lib("tree[a:b:c]", lambda: o.real[a:b:c])
        want = list(range(n))[a:b:c]
        s.flags["slice"] = True
        ctx.check(len(nodes) == len(want), "tree/slice-length", lambda: f"[{a}:{b}:{c}]: {len(nodes)} vs {len(want)}")
        for nd, i in list(zip(nodes, want))[:6]:
            _add_view(s, ctx, _View("node", nd, ok, [i], True))
    elif name == "relatives":
        nodes = [v for v in s.views if v.kind == "node" and v.from_tree]
        if not nodes:
            return
        v = nodes[args[0] % len(nodes)]
        o = s.owners[v.owner]
        i = v.idx[0]
        par = int(o.cols["pid"][i])
        p = ctx.lib("node.parent", v.real.parent)
        ctx.check((p is None) == (par == -1), "node/parent", f"node {i}")
        if p is not None:
            _add_view(s, ctx, _View("node", p, v.owner, [par], True))
        kids = ctx.lib("node.children", v.real.children)
        want = [k for k in range(len(o.cols["pid"])) if o.cols["pid"][k] == i]
        ctx.check(sorted(int(k.id) for k in kids) == want, "node/children", lambda: f"node {i}: {[int(k.id) for k in kids]} vs {want}")
        for k in kids[:3]:
            _add_view(s, ctx, _View("node", k, v.owner, [int(k.idx)], True))
        ctx.check(bool(v.real.is_tip()) == (not want) and bool(v.real.is_furcation()) == (len(want) > 1), "node/tip-furcation", "")
        if args[1] % 4 == 0:
            if o.cols["type"][0] == 1:
                sm = ctx.lib("tree.soma", o.real.soma)
            else:  # the root was retyped by an earlier write: soma() refuses unless the type check is off
                sm = ctx.lib("tree.soma", o.real.soma, type_check=False)
            _add_view(s, ctx, _View("node", sm, v.owner, [0], True))
    elif name in ("path", "branch"):
        ok = tree_owners[args[0] % len(tree_owners)]
        o = s.owners[ok]
        parents = [int(p) for p in o.cols["pid"]]
        if len(parents) < 2:
            return
        objs = ctx.lib(f"tree.get_{name}s", o.real.get_paths if name == "path" else o.real.get_branches)
        ref = sorted(models.paths(parents) if name == "path" else models.branches(parents))
        got = sorted(tuple(int(v) for v in x.idx) for x in objs)
        ctx.check(got == ref, f"{name}/decomposition", lambda: f"{got} vs {ref}")
        x = objs[args[1] % len(objs)]
        _add_view(s, ctx, _View(name, x, ok, list(x.idx), True))
        if name == "branch" and args[1] % 2:
            apply(s, "branch_segments", len([v for v in s.views if v.kind == "branch"]) - 1, ctx)
    elif name == "tree_segments":
        ok = tree_owners[args % len(tree_owners)]
        o = s.owners[ok]
        n = len(o.cols["id"])
        segs = ctx.lib("tree.get_segments", o.real.get_segments)
        want = [(int(o.cols["pid"][i]), i) for i in range(n) if o.cols["pid"][i] != -1]
        got = [tuple(int(v) for v in sg.idx) for sg in segs]
        ctx.check(got == want, "tree/segments-are-(parent,child)-pairs-in-node-order", lambda: f"{got} vs {want}")
        if n >= 2:
            ctx.check(segs.xyz().shape == (n - 1, 2, 3) and segs.xyzr().shape == (n - 1, 2, 4) and segs.id().shape == (n - 1, 2),
                      "tree/segments-shapes", lambda: f"{segs.xyz().shape}")
            ctx.check(np.array_equal(segs.x(), np.array([[o.cols["x"][a], o.cols["x"][b]] for a, b in want])), "tree/segments-values", "")
            k = args % len(segs)
            _add_view(s, ctx, _View("compartment", segs[k], ok, list(want[k]), True))
    elif name == "branch_segments":
        brs = [v for v in s.views if v.kind in ("branch",)]
        if not brs:
            return
        v = brs[args % len(brs)]
        segs = ctx.lib("branch.get_segments", v.real.get_segments)
        m = len(v.idx)
        attached_nontrivial = v.from_tree and m >= 3 and v.idx != list(range(m))
        if attached_nontrivial:
            s.flags["attached_branch_segments"] = True
        ctx.check(len(segs) == m - 1, "branch/segments-count", lambda: f"{len(segs)} segments for {m} nodes")
        o = s.owners[v.owner]
        for k, sg in enumerate(segs):
            a, b = v.idx[k], v.idx[k + 1]
            for col in ("x", "y", "z", "r", "tag"):
                got = ctx.lib("segment.get_ndata", sg.get_ndata, col)
                want = [o.cols[col][a], o.cols[col][b]]
                ctx.check(got.tolist() == want, "branch/segments-are-consecutive-node-pairs",
                          lambda: f"segment {k} of branch at positions {v.idx}: {col} = {got.tolist()}, expected {want}")
        if m >= 2:
            ctx.check(segs.xyz().shape == (m - 1, 2, 3), "branch/segments-shape", lambda: f"{segs.xyz().shape}")
            for col in ("x", "r", "type", "tag"):
                want = np.array([[o.cols[col][v.idx[k]], o.cols[col][v.idx[k + 1]]] for k in range(m - 1)])
                ctx.check(np.array_equal(segs.get_ndata(col), want), "branch/segments-collection-values",
                          lambda: f"{col}: {segs.get_ndata(col).tolist()} vs {want.tolist()}")
            # keep one or two of them as views of their own: they stay attached to the branch
            for k in sorted({args % (m - 1), (args // 3) % (m - 1)}):
                _add_view(s, ctx, _View("compartment", segs[k], v.owner, [v.idx[k], v.idx[k + 1]], v.from_tree))
    elif name == "collection":
        # a Compartments collection assembled by the caller from compartments of any owners (tree segments, segments
        # of different branches, detached ones): each row reports its own compartment's two nodes
        comps = [v for v in s.views if v.kind == "compartment"]
        if not comps:
            return
        k = 1 + args[1] % 4
        members = [comps[(args[0] + 7 * j) % len(comps)] for j in range(k)]
        from swcgeom.core import Compartments

        coll = ctx.lib("Compartments([...])", Compartments, [m_.real for m_ in members])
        if len({id(m_.real.attach) for m_ in members}) > 1:
            s.flags["mixed_collection"] = True
        ctx.check(len(coll) == k, "collection/length", f"{len(coll)} vs {k}")
        for col in ("x", "y", "z", "r", "type", "tag", "w"):
            want = np.array([[s.owners[m_.owner].cols[col][m_.idx[0]], s.owners[m_.owner].cols[col][m_.idx[1]]] for m_ in members])
            got = ctx.lib("collection.get_ndata", coll.get_ndata, col)
            ctx.check(np.array_equal(got, want), "collection/each-row-reads-its-own-compartment",
                      lambda: f"{col}: {np.asarray(got).tolist()} vs {want.tolist()}")
        wantx = np.stack([np.array([[s.owners[m_.owner].cols[c][m_.idx[0]], s.owners[m_.owner].cols[c][m_.idx[1]]] for m_ in members])
                          for c in "xyz"], axis=2)
        ctx.check(np.array_equal(coll.xyz(), wantx), "collection/xyz", "")
    elif name == "index_path":
        ps = [v for v in s.views if v.kind in ("path", "branch", "compartment")]
        if not ps:
            return
        v = ps[args[0] % len(ps)]
        m = len(v.idx)
        i = args[1] % (2 * m + 4) - (m + 2)
        o = s.owners[v.owner]
        if -m <= i < m:
            nd = ctx.lib("path[i]", lambda: v.real[i])
            j = v.idx[i % m]
            ctx.check((nd.x, nd.y, nd.z, nd.r, nd["tag"]) == tuple(o.cols[c][j] for c in ("x", "y", "z", "r", "tag")),
                      f"{v.kind}/int-index", lambda: f"[{i}] of positions {v.idx}")
            # the handle is kept: it goes on reporting its node, whatever is written to that node later
            s.flags["kept_subnode"] = True
            _add_view(s, ctx, _View("subnode", nd, v.owner, [j], False))
        else:
            try:
                v.real[i]
            except IndexError:
                pass
            else:
                ctx.fail(f"{v.kind}/out-of-range-index-accepted", f"[{i}] with {m} nodes")
        a, b, c = args[1] % 7 - 3, args[0] % 9 - 4, (args[1] % 5 - 2) or 1
        got = [nd["tag"] for nd in v.real[a:b:c]]
        want = [o.cols["tag"][j] for j in v.idx[a:b:c]]
        ctx.check(got == want, f"{v.kind}/slice-index", lambda: f"[{a}:{b}:{c}]: {got} vs {want}")
        got = [nd["tag"] for nd in v.real]
        ctx.check(got == [o.cols["tag"][j] for j in v.idx], f"{v.kind}/iteration", "")
    elif name == "read":
        if not s.views:
            return
        _check_view(s, ctx, s.views[args % len(s.views)])
    elif name == "write":
        sel, ci, raw = args
        col = WRITABLE[ci % len(WRITABLE)]
        val = _val(col, raw)
        nodes = [v for v in s.views if v.kind == "node"]
        if not nodes:
            return
        v = nodes[sel % len(nodes)]
        o = s.owners[v.owner]
        if s.flags.get("kept_subnode"):
            s.flags["write_after_kept_subnode"] = True
        if sel % 2:
            ctx.lib("node.attr = v", setattr, v.real, col, val) if col in ("x", "y", "z", "r", "type") else ctx.lib("node[k] = v", v.real.__setitem__, col, val)
        else:
            ctx.lib("node[k] = v", v.real.__setitem__, col, val)
        o.cols[col][v.idx[0]] = val
        s.flags["write"] = True
        if s.flags["have_detached"]:
            s.flags["detached_then_write"] = True
    elif name == "reparent":
        # the parent id is an attribute like any other: a tree node is hung below another node (not one of its own
        # descendants, so the table stays a tree) through its handle, by attribute or by item assignment
        sel, sel2, how = args
        nodes = [v for v in s.views if v.kind == "node" and v.from_tree and s.owners[v.owner].kind == "tree"
                 and int(s.owners[v.owner].cols["pid"][v.idx[0]]) != -1]
        if not nodes:
            return
        v = nodes[sel % len(nodes)]
        o = s.owners[v.owner]
        i = v.idx[0]
        parents = [int(q) for q in o.cols["pid"]]
        below = models.descendants_or_self(parents, i)
        cands = [j for j in range(len(parents)) if j not in below and j != parents[i]]
        if not cands:
            return
        j = cands[sel2 % len(cands)]
        if how % 2:
            ctx.lib("node.pid = v", setattr, v.real, "pid", j)
        else:
            ctx.lib("node['pid'] = v", v.real.__setitem__, "pid", j)
        o.cols["pid"][i] = j
        s.flags["write"] = True
        s.flags["reparented"] = True
        if s.flags["have_detached"]:
            s.flags["detached_then_write"] = True
    elif name == "write_owner":
        # edit a copy / detached object directly through its own storage
        sel, ci, raw = args
        others = [k for k in range(1, len(s.owners))]
        if not others:
            return
        ok = others[sel % len(others)]
        o = s.owners[ok]
        col = WRITABLE[ci % len(WRITABLE)]
        val = _val(col, raw)
        i = (sel // 7) % len(o.cols["id"])
        o.real.ndata[col][i] = val
        o.cols[col][i] = val
        s.flags["write"] = True
        s.flags["detached_then_write"] = True
    elif name == "detach":
        if not s.views:
            return
        v = s.views[args % len(s.views)]
        d = ctx.lib(f"{v.kind}.detach", v.real.detach)
        src = s.owners[v.owner]
        m = len(v.idx)
        cols = {c: src.cols[c][v.idx].copy() for c in COLS}
        cols["id"] = np.arange(m, dtype=cols["id"].dtype)
        cols["pid"] = np.arange(-1, m - 1, dtype=cols["pid"].dtype)
        owner_real = d.attach
        ctx.check(owner_real is not src.real, f"{v.kind}/detach-returns-a-new-owner", "")
        for c in COLS:
            ctx.check(c in owner_real.ndata and not np.shares_memory(owner_real.ndata[c], src.real.ndata[c]),
                      f"{v.kind}/detached-copy-shares-no-storage", f"column {c}")
        s.owners.append(_Owner(owner_real, cols, "detached"))
        s.flags["have_detached"] = True
        _add_view(s, ctx, _View(v.kind, d, len(s.owners) - 1, list(range(m)), False))
    elif name == "copy":
        ok = tree_owners[args % len(tree_owners)]
        o = s.owners[ok]
        if len(tree_owners) >= 3:
            return
        c = ctx.lib("tree.copy", o.real.copy)
        ctx.check(c is not o.real and not any(np.shares_memory(c.ndata[k], o.real.ndata[k]) for k in COLS),
                  "tree/copy-shares-no-storage", "")
        s.owners.append(_Owner(c, {k: v.copy() for k, v in o.cols.items()}, "tree"))
        s.flags["have_detached"] = True
    elif name == "adjacency":
        ok = tree_owners[args % len(tree_owners)]
        o = s.owners[ok]
        n = len(o.cols["id"])
        m = ctx.lib("get_adjacency_matrix", o.real.get_adjacency_matrix).toarray()
        want = np.zeros((n, n), dtype=np.int64)
        for i in range(n):
            if o.cols["pid"][i] != -1:
                want[int(o.cols["pid"][i]), i] = 1
        ctx.check(m.shape == (n, n) and np.array_equal(m, want), "tree/adjacency-has-exactly-the-parent-child-entries", "")


def invariant(s, ctx):
    for k, o in enumerate(s.owners):
        for c in COLS:
            if not np.array_equal(o.real.ndata[c], o.cols[c]):
                ctx.fail("owner/content-changed-without-a-write-to-it" if True else "",
                         f"owner {k} ({o.kind}) column {c}: {o.real.ndata[c].tolist()} vs model {o.cols[c].tolist()}")
        # the owner's own bulk accessors answer from the same columns, however often they were asked before
        real = o.real
        if hasattr(real, "xyzr"):
            ctx.check(np.array_equal(real.xyz(), np.stack([o.cols[c] for c in "xyz"], axis=1)), "owner/xyz-follows-the-columns",
                      lambda: f"owner {k} ({o.kind})")
            ctx.check(np.array_equal(real.xyzr(), np.stack([o.cols[c] for c in "xyzr"], axis=1)), "owner/xyzr-follows-the-columns",
                      lambda: f"owner {k} ({o.kind})")
            ctx.check(np.array_equal(real.x(), o.cols["x"]) and np.array_equal(real.r(), o.cols["r"]) and
                      np.array_equal(real.type(), o.cols["type"]) and np.array_equal(real.pid(), o.cols["pid"]) and
                      np.array_equal(real.get_ndata("z"), o.cols["z"]), "owner/accessors-follow-the-columns", lambda: f"owner {k} ({o.kind})")
    for v in s.views[-12:]:
        _check_view(s, ctx, v)


def finish(s, ctx):
    f = s.flags
    if s.t.get("strided_columns"):
        ctx.cls("tree-built-from-strided-columns")
    for k in ("write", "detached_then_write", "attached_branch_segments", "negative", "slice", "mixed_collection", "write_after_kept_subnode", "reparented"):
        if f.get(k):
            ctx.cls("history:" + k)
    n = len(s.t["parents"])
    ctx.cls("n>=6" if n >= 6 else "n<6")
    ctx.nontrivial(f["write"] and f["detached_then_write"] and f["attached_branch_segments"])


# ----------------------------------------------------------------------------- copies of trees that carry more than columns
@st.composite
def btcopy_strategy(draw, tier):
    t = draw(gen_tree.tree_case(min_n=2, max_n=16 if tier == "quick" else 50, regimes=["lattice"], soma_root=True, permute=None))
    return {"tree": t, "sel": draw(st.integers(0, 10 ** 6)), "val": draw(st.integers(-200, 200)) / 8.0,
            "what": draw(st.sampled_from(["drop-a-remembered-branch", "move-a-remembered-branch", "write-a-node", "forget-a-node's-branches"]))}


def _bt_content(bt):
    cols = {k: bt.get_ndata(k).copy() for k in bt.keys()}
    brs = {int(k): [np.asarray(b.xyzr(), dtype=np.float64).copy() for b in v] for k, v in bt.branches.items()}
    return cols, brs


def _bt_equal(a, b):
    if set(a[0]) != set(b[0]) or any(not np.array_equal(a[0][k], b[0][k]) for k in a[0]):
        return False
    if set(a[1]) != set(b[1]):
        return False
    return all(len(a[1][k]) == len(b[1][k]) and all(np.array_equal(x, y) for x, y in zip(a[1][k], b[1][k])) for k in a[1])


def run_btcopy(case, ctx):
    """A branch tree is a tree that also remembers the original branches: its copy() has equal content and is fully
    independent - editing either side (a node attribute, the remembered branches, their points) never shows on the other."""
    from swcgeom.core import BranchTree

    tree = gen_tree.build_tree(case["tree"])
    bt = ctx.lib("BranchTree.from_tree", BranchTree.from_tree, tree)
    before = _bt_content(bt)
    c = ctx.lib("branch_tree.copy", bt.copy)
    ctx.check(type(c) is type(bt), "branch_tree/copy-has-the-same-type", f"{type(c).__name__}")
    ctx.check(_bt_equal(_bt_content(c), before), "branch_tree/copy-has-equal-content", "")
    keys = sorted(before[1])
    ctx.cls("copy-edit:" + case["what"])
    ctx.nontrivial(len(keys) >= 2)
    # edit the copy (even selections) or the original (odd selections); the other side must keep its content
    edited, kept = (c, bt) if case["sel"] % 2 == 0 else (bt, c)
    kept_before = _bt_content(kept)
    k = keys[(case["sel"] // 2) % len(keys)]
    what = case["what"]
    if what == "drop-a-remembered-branch":
        edited.branches[k].pop()
    elif what == "forget-a-node's-branches":
        edited.branches.pop(k)
    elif what == "move-a-remembered-branch":
        br = edited.branches[k][0]
        for col in ("x", "y", "z"):
            br.attach.ndata[col][...] = br.attach.ndata[col] + np.float32(abs(case["val"]) + 1.0)  # never a move by zero
    else:
        nd = edited.node((case["sel"] // 2) % len(edited))
        nd.x = float(case["val"]) + 777.0
    ctx.check(_bt_equal(_bt_content(kept), kept_before), "branch_tree/copy-and-original-are-independent",
              lambda: f"after '{what}' on the {'copy' if edited is c else 'original'}, the other side changed")
    ctx.check(not _bt_equal(_bt_content(edited), kept_before), "branch_tree/edit-took-effect", "")


# ----------------------------------------------------------------------------- views of large trees
@st.composite
def bulk_strategy(draw, tier):
    return {"tree": {"bulk": [draw(st.integers(0, 2 ** 31 - 1)), draw(st.sampled_from([32769, 40000, 65535, 65536, 70000, 256, 257])),
                              draw(st.sampled_from(["uniform", "caterpillar", "binary"])), "lattice"]},
            "sel": draw(st.lists(st.integers(0, 10 ** 6), min_size=6, max_size=6))}


def bulk_cases(tier):
    import os
    import random

    rnd = random.Random(int(os.environ.get("VERIF_SEED", "1") or 1) * 7919 + 9)
    shapes = ["uniform", "caterpillar", "binary"]
    for k, n in enumerate([32769, 40000, 65535, 65536, 70000, 256, 257] * (1 if tier == "quick" else 3)):
        for shape in (shapes if tier != "quick" else [shapes[(k + rnd.randrange(3)) % 3]] + (["uniform"] if n > 32768 else [])):
            yield {"tree": {"bulk": [rnd.randrange(2 ** 31 - 1), n, shape, "lattice"]}, "sel": [rnd.randrange(10 ** 6) for _ in range(6)]}


def run_bulk(case, ctx):
    from swcgeom.core import Tree

    t = gen_tree.materialize(case["tree"])
    n = len(t["parents"])
    par = t["parents"]
    tree = gen_tree.build_tree(t)
    tag = np.array(t["tag"])
    xs = np.array(t["x"], dtype=np.float32)
    ctx.cls(f"bulk:n={n}")
    ctx.nontrivial(n > 32768)
    picks = sorted({n - 1, n - 2, n // 2 + 1, 32768 % n, 32769 % n, 65535 % n} | {v % n for v in case["sel"]})
    picks = [i for i in picks if i > 0]
    # node handles, by position and by negative position
    for i in picks:
        for nd in (tree[i], tree[i - n], tree.node(i)):
            ctx.check(int(nd["tag"]) == int(tag[i]) and float(nd.x) == float(xs[i]) and int(nd.pid) == par[i], "bulk/node-handle",
                      lambda: f"node {i} of {n}: tag {nd['tag']} vs {tag[i]}")
    # the tree's segments are its (parent, child) pairs
    segs = ctx.lib("tree.get_segments", tree.get_segments)
    ctx.check(len(segs) == n - 1, "bulk/tree-segments/count", f"{len(segs)} for {n} nodes")
    want = {(int(tag[par[i]]), int(tag[i])) for i in picks}
    got = set()
    for k in {i - 1 for i in picks} | {len(segs) - 1}:
        sg = segs[k]
        pair = tuple(int(v) for v in sg.get_ndata("tag"))
        got.add(pair)
        child = int(sg.origin_id()[1])
        ctx.check(pair == (int(tag[par[child]]), int(tag[child])) and sg.x().tolist() == [float(xs[par[child]]), float(xs[child])],
                  "bulk/tree-segments/parent-child-pairs", lambda: f"segment {k} of {n - 1}: tags {pair}, origin ids {sg.origin_id().tolist()}")
    ctx.check(want <= got, "bulk/tree-segments/parent-child-pairs", lambda: f"missing pairs {sorted(want - got)[:3]}")
    # paths built over chosen positions (root-to-node walks), their slices and segments
    for i in picks[-4:]:
        walk = [i] + models.ancestors(par, i)
        walk.reverse()
        pth = Tree.Path(tree, walk)
        ctx.check(pth.get_ndata("tag").tolist() == tag[walk].tolist() and pth.x().tolist() == xs[walk].tolist(),
                  "bulk/path/reads-its-nodes-in-order", lambda: f"path to node {i} of {n}")
        ctx.check([int(nd["tag"]) for nd in pth[-2:]] == tag[walk[-2:]].tolist() and int(pth[-1]["tag"]) == int(tag[i]),
                  "bulk/path/negative-positions-and-slices", lambda: f"path to node {i} of {n}")
        if len(walk) >= 2:
            cp = Tree.Compartment(tree, walk[-2], walk[-1])
            ctx.check(cp.get_ndata("tag").tolist() == tag[walk[-2:]].tolist(), "bulk/compartment/reads-its-two-nodes", lambda: f"nodes {walk[-2:]}")
    # branches: those reaching the chosen nodes
    brs = ctx.lib("tree.get_branches", tree.get_branches)
    seen = 0
    for br in brs:
        ids = br.origin_id()
        if int(ids[-1]) >= n - 40 or int(ids.max()) >= 32768 and seen < 300:
            seen += 1
            ctx.check(br.get_ndata("tag").tolist() == tag[ids].tolist() and br.x().tolist() == xs[ids].tolist(),
                      "bulk/branch/reads-its-nodes-in-order", lambda: f"branch {ids.tolist()[:6]}... of a tree of {n}")
            ctx.check(all(par[int(b)] == int(a) for a, b in zip(ids[:-1], ids[1:])), "bulk/branch/consecutive-nodes-are-parent-and-child",
                      lambda: f"branch {ids.tolist()[:6]}")
            sgs = br.get_segments()
            ctx.check(len(sgs) == len(ids) - 1 and sgs[len(sgs) - 1].get_ndata("tag").tolist() == tag[ids[-2:]].tolist(),
                      "bulk/branch/segments-are-consecutive-pairs", lambda: f"branch {ids.tolist()[:6]}")
    ctx.check(seen > 0 or n <= 300, "bulk/branch/some-branch-reaches-the-high-positions", "")
    # writes through a handle at a high position are seen by every view; a copy is independent
    i = picks[-1]
    cp = tree.copy()
    tree[i - n].x = 4321.5
    ctx.check(float(tree.x()[i]) == 4321.5 and float(tree.xyz()[i, 0]) == 4321.5 and float(segs[i - 1].x()[1]) == 4321.5,
              "bulk/write-through-a-handle-is-visible", f"node {i} of {n}")
    ctx.check(float(cp.x()[i]) == float(xs[i]), "bulk/copy-is-independent", f"node {i} of {n}")


SUBCHECKS = [
    Enumerate("bulk", bulk_cases, run_bulk, shards_quick=8, shards_thorough=16,
              required={"bulk:n=40000": 1, "bulk:n=65535": 1, "bulk:n=32769": 1}, exhaustive=False),
    Machine("views", init_strategy,
            {"node": I2, "slice": SL, "relatives": I2, "path": I2, "branch": I2, "tree_segments": I1, "branch_segments": I1,
             "index_path": I2, "collection": I2, "read": I1, "write": WR, "reparent": WR, "write_owner": WR, "detach": I1, "copy": I1, "adjacency": I1},
            start, apply, invariant, finish, quick=1200, thorough=8000, steps_quick=40, steps_thorough=80, shards_quick=8,
            required={"history:write": 150, "history:detached_then_write": 100, "history:attached_branch_segments": 100,
                      "history:negative": 60, "history:slice": 60, "history:mixed_collection": 60,
                      "history:write_after_kept_subnode": 60, "tree-built-from-strided-columns": 200, "history:reparented": 150}),
    Sub("branch_tree_copy", btcopy_strategy, run_btcopy, quick=400, thorough=3000, shards_quick=2,
        required={"copy-edit:drop-a-remembered-branch": 40, "copy-edit:move-a-remembered-branch": 21, "copy-edit:write-a-node": 25}),
]
