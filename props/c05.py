"""C05 — Node renumbering is a pure relabelling with parents before children."""
import io

import numpy as np
from hypothesis import strategies as st

from vlib import gen_tree, models
from vlib.harness import Sub

PROPERTY = "C05"
RULE = (
    "Single-rooted trees carrying two extra per-node columns (tag: unique int32, w: float32) are "
    "renumbered (a) as a Tree with the non-root ids permuted (sort_tree), (b) as a DataFrame whose "
    "rows are permuted arbitrarily and whose ids are arbitrary distinct integers with the root "
    "anywhere (swc_utils.sort_nodes / sort_nodes_), (c) as SWC text of such a table read with "
    "sort_nodes=True and the extra columns requested (tables also with rows listed parents first while the ids count "
    "down / are scattered, and with a gap-free id range whose first row is the root; tree objects also with one array "
    "registered under two column names). Oracle: ids 0..n-1, root 0, pid < id, tags form "
    "a bijection, every node's parent tag equals its original parent tag, every column equal under "
    "the bijection, sort_nodes leaves its argument unchanged, sort_nodes_ edits it, re-sorting is "
    "again a valid relabelling and is the identity when no node has two children. "
    "Non-trivial: n >= 4, input not already parent-before-child, a furcation present."
)
ASSUMPTIONS = ["sibling order in the result is unspecified"]


@st.composite
def case_strategy(draw, tier):
    max_n = 25 if tier == "quick" else 150
    t = draw(gen_tree.tree_case(min_n=1, max_n=max_n, regimes=["lattice"], permute=None))
    n = len(t["parents"])
    form = draw(st.sampled_from(["tree", "table", "table_", "file"]))
    case = {"tree": t, "form": form, "resort_with": draw(st.sampled_from(["sort_nodes", "sort_nodes_", "tree"])),
            # file form: the root-repair option is irrelevant for a single-rooted file and must change nothing
            "fix_roots": draw(st.sampled_from([False, False, "somas", "nearest"]))}
    if form == "tree" and n >= 2 and draw(st.integers(0, 2)) == 0:
        # a tree object whose root is not node 0: what redirect_tree(sort=False) hands out
        case["reroot_first"] = draw(st.integers(1, n - 1))
    if form == "tree":
        # one measurement registered under two column names (the very same array object)
        case["aliased"] = draw(st.integers(0, 2)) == 0
        # a further per-node measurement (fractions, values beyond 2^31) stored under a name the extended SWC format
        # also knows, or under any other name
        if not case["aliased"] and draw(st.booleans()):
            case["named_extra"] = draw(st.sampled_from(gen_tree.ESWC_NAMES + ["score", "depth_um"]))
    if form == "file":
        case["reset_index"] = draw(st.sampled_from([True, True, False]))
    if form in ("table", "table_"):
        # the table's row labels (the DataFrame index) are not part of the tree: the default 0..n-1, or what is left after
        # the caller shuffled / filtered / re-labelled the rows of a bigger table
        case["index"] = draw(st.sampled_from(["default", "default", "permuted", "offset", "strings", "reversed"]))
        # a sparse annotation: one and the same value on a few nodes, nothing (NaN) on all others
        case["sparse_col"] = draw(st.integers(0, 2)) == 0
        # a further extra column of 64-bit integers beyond 2^53 (time stamps, database keys): carried exactly
        case["big_ints"] = draw(st.integers(0, 2)) == 0
    if form != "tree":
        k = draw(st.integers(0, 5))
        if k == 0:
            # database keys / hashes as ids: 64-bit values beyond 2^31 and 2^32
            case["ids"] = draw(st.lists(st.one_of(st.integers(2 ** 31 - 3, 2 ** 31 + 40), st.integers(2 ** 32 - 3, 2 ** 32 + 40),
                                                  st.integers(0, 2 ** 62)), min_size=n, max_size=n, unique=True))
        elif k <= 2:
            case["ids"] = draw(st.lists(st.integers(0, 10 ** 5), min_size=n, max_size=n, unique=True))
        else:
            base = draw(st.sampled_from([0, 1, 5]))
            case["ids"] = [i + base for i in range(n)]
        case["rows"] = list(draw(st.permutations(list(range(n)))))
        how = draw(st.integers(0, 5))
        if how <= 1:
            # rows listed parents first, while the ids count down along the rows (or are scattered): a table in
            # traversal order whose ids do not grow from parent to child
            case["rows"] = models.topo_order(t["parents"])
            if how == 0:
                base, step = draw(st.sampled_from([0, 1, 5])), draw(st.sampled_from([1, 1, 2]))
                ids = [0] * n
                for k, node in enumerate(case["rows"]):
                    ids[node] = base + step * (n - 1 - k)
                case["ids"] = ids
            case["rows_mode"] = "parents-first-ids-not-growing"
        elif how == 2:
            # a gap-free id range whose first row is the root with the smallest id, the other rows shuffled
            root = t["parents"].index(-1)
            others = [i for i in range(n) if i != root]
            base = draw(st.sampled_from([0, 1, 5]))
            ids = [0] * n
            ids[root] = base
            for node, lab in zip(others, draw(st.permutations(list(range(1, n))))):
                ids[node] = base + lab
            case["ids"] = ids
            case["rows"] = [root] + list(draw(st.permutations(others)))
            case["rows_mode"] = "dense-ids-root-min-first"
    return case


def _check_relabelling(ctx, t, got, label, require_pid_lt=True):
    """got: dict col -> list (id, pid, type, x, y, z, r, tag, w); t: original tree case."""
    n = len(t["parents"])
    ids, pids = [int(v) for v in got["id"]], [int(v) for v in got["pid"]]
    ctx.check(len(ids) == n, f"{label}/node-count", f"{len(ids)} != {n}")
    ctx.check(ids == list(range(n)), f"{label}/ids-are-0..n-1", lambda: f"ids {ids}")
    ctx.check(pids[0] == -1, f"{label}/root-is-0", lambda: f"pids {pids}")
    if require_pid_lt:
        ctx.check(all(0 <= pids[i] < i for i in range(1, n)), f"{label}/parents-before-children",
                  lambda: f"pids {pids}")
    tags = [int(v) for v in got["tag"]]
    ctx.check(sorted(tags) == sorted(t["tag"]), f"{label}/bijection",
              lambda: f"tags {tags} vs {t['tag']}")
    old_of_tag = {tg: i for i, tg in enumerate(t["tag"])}
    for new in range(n):
        old = old_of_tag[tags[new]]
        want_ptag = -1 if t["parents"][old] == -1 else t["tag"][t["parents"][old]]
        got_ptag = -1 if pids[new] == -1 else tags[pids[new]]
        ctx.check(want_ptag == got_ptag, f"{label}/parent-relation",
                  lambda: f"node tagged {tags[new]}: parent tag {got_ptag}, expected {want_ptag}")
        for col in ("type", "x", "y", "z", "r", "w") + (("w2",) if "w2" in got else ()):
            src_col = "w" if col == "w2" else col
            ctx.check(float(got[col][new]) == float(np.float32(t[src_col][old])) or got[col][new] == t[src_col][old],
                      f"{label}/column-carried", lambda: f"column {col} of node tagged {tags[new]}: "
                                                          f"{got[col][new]} != {t[src_col][old]}")


def _tree_cols(tree):
    return {k: tree.get_ndata(k).tolist() for k in tree.keys()}


def run_case(case, ctx):
    import pandas as pd

    from swcgeom.core import sort_tree
    from swcgeom.core.swc_utils import is_sorted, read_swc, sort_nodes, sort_nodes_

    t, form = case["tree"], case["form"]
    n = len(t["parents"])
    ch = models.children(t["parents"])
    has_furc = any(len(c) >= 2 for c in ch)
    max_deg = max(len(c) for c in ch)
    ctx.cls("form:" + form, *gen_tree.shape_classes(t))
    if form == "tree":
        already = all(p < i for i, p in enumerate(t["parents"]))
        ctx.cls("already-sorted" if already else "unsorted")
        ctx.nontrivial(n >= 4 and not already and has_furc)
        more = None
        if case.get("named_extra"):
            # w holds multiples of 1/4: the further column holds fractions and, for every third node, a value beyond 2^31
            named = [float(np.float32(v + 0.375 + (2.0 ** 33 if i % 3 == 0 else 0.0))) for i, v in enumerate(t["w"])]
            more = {case["named_extra"]: np.array(named, dtype=np.float32)}
            ctx.cls("extra-column-under-an-eswc-name" if case["named_extra"] in gen_tree.ESWC_NAMES else "extra-column-under-another-name")
        tree = gen_tree.build_tree(t, aliased=bool(case.get("aliased")), more=more)
        if case.get("aliased"):
            ctx.cls("one-array-under-two-column-names")
        if "reroot_first" in case:
            from swcgeom.core import redirect_tree

            tree = redirect_tree(tree, case["reroot_first"], sort=False)
            ctx.cls("tree-object-with-root-not-at-0")
            # from here on the re-rooted tree is the input: its own table is what sorting must relabel
            t = dict(t, parents=[int(v) for v in tree.pid()], type=[int(v) for v in tree.type()])
            ch = models.children(t["parents"])
            max_deg = max(len(c) for c in ch)
        before = {k: v.copy() for k, v in tree.ndata.items()}
        out = sort_tree(tree)
        for k, v in before.items():
            ctx.check(np.array_equal(tree.ndata[k], v), "tree/input-unchanged", f"column {k} modified")
        ctx.check(set(out.keys()) == set(before), "tree/columns-kept", lambda: f"{list(out.keys())}")
        got = _tree_cols(out)
        _check_relabelling(ctx, t, got, "tree")
        if more:
            name = case["named_extra"]
            of_tag = {tg: named[i] for i, tg in enumerate(t["tag"])}
            ctx.check([float(v) for v in got[name]] == [of_tag[int(tg)] for tg in got["tag"]], "tree/column-carried",
                      lambda: f"extra column {name!r}: {got[name][:6]} vs {[of_tag[int(tg)] for tg in got['tag']][:6]}")
        ctx.check(bool(is_sorted((out.id(), out.pid()))), "tree/is_sorted-agrees", "is_sorted says False")
        again = sort_tree(out)
        _check_relabelling(ctx, t, _tree_cols(again), "tree/resort")
        if max_deg <= 1:
            ctx.cls("no-furcation-fixed-point")
            for k in got:
                ctx.check(again.get_ndata(k).tolist() == got[k], "tree/resort-fixed-point",
                          f"column {k} changed by sorting a sorted chain")
        if n >= 2:
            # the caller edits the first result in place (re-parents a node, renumbers) and sorts the same input again:
            # the new result is made from the input, whatever happened to the old one
            out.node(n - 1).pid = 0
            out.ndata["id"][...] = 77
            for col in ("x", "tag"):
                out.ndata[col][...] = 0
            out3 = sort_tree(tree)
            _check_relabelling(ctx, t, _tree_cols(out3), "tree/sorted-again-after-the-first-result-was-edited")
            ctx.cls("sorted-again-after-the-first-result-was-edited")
        return

    ids, rows = case["ids"], case["rows"]
    root_row = rows.index(t["parents"].index(-1))
    pos_sorted = all(t["parents"][node] == -1 or
                     (rows.index(t["parents"][node]) < r and ids[t["parents"][node]] < ids[node])
                     for r, node in enumerate(rows))
    ctx.cls("root-row-0" if root_row == 0 else "root-not-row-0",
            "already-sorted" if pos_sorted else "unsorted",
            "noncontiguous-ids" if sorted(ids) != list(range(min(ids), min(ids) + n)) else "contiguous-ids",
            "rows:" + case.get("rows_mode", "shuffled"))
    ctx.nontrivial(n >= 4 and not pos_sorted and has_furc)
    cols = {
        "id": [ids[node] for node in rows],
        "type": [t["type"][node] for node in rows],
        "x": [t["x"][node] for node in rows], "y": [t["y"][node] for node in rows],
        "z": [t["z"][node] for node in rows], "r": [t["r"][node] for node in rows],
        "pid": [-1 if t["parents"][node] == -1 else ids[t["parents"][node]] for node in rows],
        "tag": [t["tag"][node] for node in rows], "w": [t["w"][node] for node in rows],
    }
    if form in ("table", "table_"):
        if case.get("big_ints"):
            big_of_node = [2 ** 53 + 1 + 3 * node + (node % 5) * 2 ** 40 for node in range(n)]
            cols["big"] = np.array([big_of_node[node] for node in rows], dtype=np.int64)
            ctx.cls("extra-column-of-64-bit-integers")
        if max(ids) >= 2 ** 31:
            ctx.cls("ids-beyond-2^31")
        if case.get("sparse_col"):
            marked = {node for node in range(n) if (node * 7 + n) % 4 == 0}
            cols["mark"] = [0.75 if node in marked else float("nan") for node in rows]
            ctx.cls("sparse-extra-column-with-a-single-value")
        df = pd.DataFrame(cols)
        how_index = case.get("index", "default")
        if how_index != "default" and n >= 2:
            rs = np.random.RandomState(n * 7919 + sum(rows))
            if how_index == "permuted":
                df.index = [int(v) for v in rs.permutation(n)]
            elif how_index == "reversed":
                df.index = list(range(n - 1, -1, -1))
            elif how_index == "offset":
                df.index = [1000 + 3 * k for k in range(n)]
            else:
                df.index = [f"row-{k}" for k in range(n)]
            ctx.cls("table-with-row-labels-other-than-0..n-1")
        snapshot = df.copy(deep=True)
        if form == "table":
            out = sort_nodes(df)
            ctx.check(df.equals(snapshot), "table/argument-unchanged", "sort_nodes modified its argument")
        else:
            ret = sort_nodes_(df)
            ctx.check(ret is None, "table_/returns-none", f"returned {type(ret).__name__}")
            out = df
        ctx.check(list(out.columns) == list(snapshot.columns), f"{form}/columns-kept",
                  lambda: f"{list(out.columns)}")
        got = {c: out[c].tolist() for c in out.columns}
        _check_relabelling(ctx, t, got, form)
        if case.get("sparse_col"):
            node_of_tag = {tg: i for i, tg in enumerate(t["tag"])}
            want_marks = [node_of_tag[int(tg)] in marked for tg in got["tag"]]
            got_marks = [v == 0.75 for v in got["mark"]]
            ctx.check(got_marks == want_marks and all(v == 0.75 or v != v for v in got["mark"]), f"{form}/column-carried",
                      lambda: f"sparse column: marked rows {[i for i, v in enumerate(got_marks) if v]}, expected {[i for i, v in enumerate(want_marks) if v]}")
        if case.get("big_ints"):
            node_of_tag = {tg: i for i, tg in enumerate(t["tag"])}
            ctx.check(str(out["big"].dtype) == "int64" and [int(v) for v in got["big"]] == [big_of_node[node_of_tag[int(tg)]] for tg in got["tag"]],
                      f"{form}/column-carried", lambda: f"64-bit integer column: {got['big'][:4]} ...")
        ctx.check(bool(is_sorted((out["id"].to_numpy(), out["pid"].to_numpy()))),
                  f"{form}/is_sorted-agrees", "is_sorted says False")
        how = case.get("resort_with", "sort_nodes")
        ctx.cls("resort-with:" + how)
        if how == "sort_nodes_":
            again = out.copy(deep=True) if form == "table_" else out  # the copying form's result is ours to edit
            sort_nodes_(again)
        else:
            again = sort_nodes(out)
        _check_relabelling(ctx, t, {c: again[c].tolist() for c in again.columns}, f"{form}/resort")
        if max_deg <= 1:
            ctx.cls("no-furcation-fixed-point")
            ctx.check(again.equals(out), f"{form}/resort-fixed-point", "sorted chain changed by re-sorting")
        return

    # file form: lattice values print exactly with 4 decimals
    lines = ["# a comment"]
    for i in range(n):
        lines.append(" ".join(str(cols[c][i]) for c in ("id", "type", "x", "y", "z", "r", "pid", "tag", "w")))
    text = "\n".join(lines) + "\n"
    fix = case.get("fix_roots", False)
    ctx.cls(f"file:fix_roots={fix}")
    reset = case.get("reset_index", True)
    ctx.cls(f"file:reset_index={reset}")
    if max(ids) >= 2 ** 31:
        ctx.cls("ids-beyond-2^31")
    df, _ = read_swc(io.StringIO(text), extra_cols=["tag", "w"], sort_nodes=True, fix_roots=fix, reset_index=reset)
    got = {c: df[c].tolist() for c in df.columns}
    ctx.check(set(got) >= {"id", "pid", "tag", "w"}, "file/columns-kept", lambda: f"{list(got)}")
    # radii may be general float32 values: the text carries their repr, compare as float32
    _check_relabelling(ctx, t, got, "file")


SUBCHECKS = [
    Sub("relabel", case_strategy, run_case, quick=2000, thorough=30000, shards_quick=4,
        required={"form:tree": 100, "form:table": 100, "form:table_": 100, "form:file": 100,
                  "root-not-row-0": 100, "noncontiguous-ids": 100, "unsorted": 200,
                  "no-furcation-fixed-point": 10, "tree-object-with-root-not-at-0": 60,
                  "resort-with:sort_nodes_": 60, "file:fix_roots=somas": 30, "file:fix_roots=nearest": 30,
                  "one-array-under-two-column-names": 80, "rows:parents-first-ids-not-growing": 200,
                  "rows:dense-ids-root-min-first": 100, "extra-column-of-64-bit-integers": 100,
                  "ids-beyond-2^31": 34, "file:reset_index=False": 47, "extra-column-under-an-eswc-name": 44,
                  "table-with-row-labels-other-than-0..n-1": 200, "sparse-extra-column-with-a-single-value": 103,
                  "sorted-again-after-the-first-result-was-edited": 200}),
]
