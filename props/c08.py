"""C08 — Branches, paths, tips and furcations decompose the tree exactly."""
import numpy as np
from hypothesis import strategies as st

from vlib import gen_tree, models
from vlib.harness import Sub

PROPERTY = "C08"
RULE = (
    "Tagged trees of every shape class with forced root degree 1 / 2 / >= 3, single-node trees and "
    "unbranched chains, permuted numbering in half the cases. Oracle: reference decomposition from "
    "parent pointers (tips = childless, furcations = >= 2 children, branches = walks from root / "
    "furcation down each child through pass-through nodes, one root-to-tip path per tip); "
    "get_branches / get_paths compared as sets of id tuples (which implies every edge lies in exactly "
    "one branch); BranchTree / ToBranchTree nodes, parent relation and remembered branch points; "
    "ToLongestPath; Node.branch(). Non-trivial: >= 6 nodes with >= 2 furcations, or one of the named "
    "corner shapes (single node, unbranched chain, root degree 1)."
)
ASSUMPTIONS = ["the order of branches / paths in the returned lists is unspecified"]


@st.composite
def case_strategy(draw, tier):
    max_n = 25 if tier == "quick" else 150
    k = draw(st.integers(0, 40))
    if k == 40:
        # nodes with exactly 255, 256 and 257 children
        return {"tree": {"bulk": [draw(st.integers(0, 2 ** 31 - 1)), draw(st.integers(769, 800)), "hubs", "lattice"]},
                "then": "nothing", "sel": 0}
    k = k % 10
    if k == 0:
        t = draw(gen_tree.tree_case(min_n=1, max_n=1, regimes=["lattice"]))
    elif k == 1:
        t = draw(gen_tree.tree_case(min_n=2, max_n=max_n, shapes=["chain"], regimes=["lattice", "coincident"]))
        n = len(t["parents"])
        if draw(st.booleans()):  # a strictly unbranched chain under the current numbering
            order = models.topo_order(t["parents"])
            # rebuild as a pure chain over the same ids
            seq = list(range(n)) if not t["permuted"] else [0] + [i for i in order if i != 0]
            par = [-1] * n
            for a, b in zip(seq[:-1], seq[1:]):
                par[b] = a
            t["parents"] = par
    else:
        t = draw(gen_tree.tree_case(min_n=2, max_n=max_n, regimes=["lattice", "coincident", "float"]))
    return {"tree": t, "then": draw(st.sampled_from(["nothing", "nothing", "sort", "redirect", "reparent", "copy-reparent", "branch-tree", "branch-tree"])), "sel": draw(st.integers(0, 10 ** 6))}


def run_case(case, ctx):
    from swcgeom.core import redirect_tree, sort_tree

    t = gen_tree.materialize(case["tree"])
    tree = gen_tree.build_tree(t)
    classes = gen_tree.shape_classes(t)
    ctx.cls(*classes)
    n = len(t["parents"])
    ch = models.children(t["parents"])
    nfurc = sum(1 for c in ch if len(c) >= 2)
    ctx.nontrivial((n >= 6 and nfurc >= 2) or n == 1 or "unbranched-chain" in classes or "rootdeg:1" in classes)
    _decompose(t, tree, ctx)
    # a tree derived from the one that has just been inspected is decomposed on its own terms
    how = case.get("then", "nothing")
    if max(len(c) for c in ch) >= 256:
        ctx.cls("a-node-with-256-or-more-children")
    if how in ("reparent", "copy-reparent") and n >= 3:
        # the tree that has just been decomposed (or a copy of it) is re-parented in place through a node handle and
        # decomposed again: every answer follows the tree as it is now
        movable = [i for i in range(n) if t["parents"][i] != -1]
        a = movable[case["sel"] % len(movable)]
        below = models.descendants_or_self(t["parents"], a)
        cands = [j for j in range(n) if j not in below and j != t["parents"][a]]
        if cands:
            b = cands[(case["sel"] // 7) % len(cands)]
            target = tree.copy() if how == "copy-reparent" else tree
            if case["sel"] % 2:
                target.node(a).pid = b
            else:
                target.pid()[a] = b
            t2 = dict(t, parents=[b if i == a else p for i, p in enumerate(t["parents"])])
            ctx.cls("re-parented-in-place-after-a-first-decomposition:" + how)
            _decompose(t2, target, ctx)
        return
    if how == "branch-tree" and n >= 2:
        # the branch tree is a tree in its own right (an instance of a Tree subclass): decomposed on its own terms, its own
        # branch tree included
        from swcgeom.core import BranchTree
        from swcgeom.transforms import ToBranchTree

        derived = ToBranchTree()(tree) if case["sel"] % 2 else BranchTree.from_tree(tree)
        t2 = dict(t, parents=[int(v) for v in derived.pid()])
        for col in ("x", "y", "z", "r", "w"):
            t2[col] = [float(v) for v in derived.get_ndata(col)]
        t2["type"] = [int(v) for v in derived.type()]
        t2["tag"] = [int(v) for v in derived.get_ndata("tag")]
        ctx.cls("branch-tree-decomposed-as-a-tree")
        _decompose(t2, derived, ctx)
        return
    if how != "nothing" and n >= 2:
        derived = sort_tree(tree) if how == "sort" else redirect_tree(tree, case["sel"] % n)
        t2 = dict(t, parents=[int(v) for v in derived.pid()])
        for col in ("x", "y", "z", "r", "w"):
            t2[col] = [float(v) for v in derived.get_ndata(col)]
        t2["type"] = [int(v) for v in derived.type()]
        t2["tag"] = [int(v) for v in derived.get_ndata("tag")]
        ctx.cls("derived-tree-decomposed-after-its-source:" + how)
        _decompose(t2, derived, ctx)


def _decompose(t, tree, ctx):
    from swcgeom.core import BranchTree
    from swcgeom.transforms import ToBranchTree, ToLongestPath

    parents = t["parents"]
    n = len(parents)
    ch = models.children(parents)

    want_tips = sorted(models.tips(parents))
    want_furc = sorted(models.furcations(parents))
    got_tips = sorted(int(x.id) for x in tree.get_tips())
    got_furc = sorted(int(x.id) for x in tree.get_furcations())
    ctx.check(got_tips == want_tips, "tips", lambda: f"{got_tips} != {want_tips} (parents {parents})")
    ctx.check(got_furc == want_furc, "furcations", lambda: f"{got_furc} != {want_furc} (parents {parents})")
    for i in range(n):
        # the handle of node i, however it was obtained: tree.node(i), tree[i], the negative position tree[i - n], a
        # one-element slice, iteration
        for how, nd in (("node(i)", tree.node(i)), ("tree[i]", tree[i]), ("tree[i-n]", tree[i - n]),
                        ("tree[i:i+1][0]", tree[i:i + 1][0])):
            ctx.check(bool(nd.is_tip()) == (i in want_tips), "node/is_tip", f"node {i} via {how}")
            ctx.check(bool(nd.is_furcation()) == (i in want_furc), "node/is_furcation", f"node {i} via {how}")

    want_br = sorted(models.branches(parents))
    brs = tree.get_branches()
    got_br = sorted(tuple(int(v) for v in br.origin_id()) for br in brs)
    ctx.check(got_br == want_br, "branches/partition-the-edges",
              lambda: f"got {got_br}, expected {want_br} (parents {parents})")
    for br in brs:
        ids = [int(v) for v in br.origin_id()]
        for col in "xyzr":
            ctx.check(br.get_ndata(col).tolist() == [float(np.float32(t[col][i])) for i in ids],
                      "branches/points", f"column {col} of branch {ids}")

    want_paths = sorted(models.paths(parents))
    got_paths = sorted(tuple(int(v) for v in p.origin_id()) for p in tree.get_paths())
    ctx.check(got_paths == want_paths, "paths/one-per-tip", lambda: f"got {got_paths}, expected {want_paths}")

    # Node.branch()
    for i in range(n):
        if len(ch[i]) >= 2:
            continue
        if parents[i] == -1 and len(ch[i]) == 0:
            continue
        got = tuple(int(v) for v in (tree.node(i) if i % 2 else tree[i - n]).branch().origin_id())
        want = [b for b in want_br if i in b[1:] or (parents[i] == -1 and b[0] == i)]
        ctx.check(len(want) == 1 and got == want[0], "node/branch",
                  lambda: f"node {i}: got {got}, expected {want} (parents {parents})")

    # branch tree
    for maker, label in ((BranchTree.from_tree, "branch_tree"), (ToBranchTree(), "to_branch_tree")):
        # in a third of the cases the source tree goes on being edited right after the conversion (every node moved and
        # re-sized in place through its handle) before anything of the branch tree is looked at: what the branch tree
        # remembers are the branches as they were when it was made
        src = tree
        if n % 3 == (0 if label == "branch_tree" else 1):
            src = gen_tree.build_tree(t)
            bt = maker(src)
            for i in range(n):
                nd = src.node(i)
                nd.x = float(nd.x) + 1000.0
                nd.r = float(nd.r) + 0.5
            ctx.cls("source-edited-in-place-right-after-the-conversion")
        else:
            bt = maker(src)
        root = parents.index(-1)
        want_nodes = sorted({root} | set(want_tips) | set(want_furc))
        tags = [int(v) for v in bt.get_ndata("tag")]
        ctx.check(sorted(tags) == sorted(t["tag"][i] for i in want_nodes), f"{label}/nodes",
                  lambda: f"tags {sorted(tags)} vs nodes {want_nodes}")
        reason = models.wellformed(bt.id(), bt.pid())
        ctx.check(reason is None, f"{label}/wellformed", reason)
        pids = bt.pid().tolist()
        rel = {(tags[i], tags[pids[i]]) for i in range(len(tags)) if pids[i] != -1}
        want_rel = {(t["tag"][b[-1]], t["tag"][b[0]]) for b in want_br}
        ctx.check(rel == want_rel, f"{label}/joined-as-the-branches-join",
                  lambda: f"edges {sorted(rel)} vs {sorted(want_rel)}")
        old_of_tag = {tg: i for i, tg in enumerate(t["tag"])}
        for new, tg in enumerate(tags):
            old = old_of_tag[tg]
            for col in ("type", "x", "y", "z", "r", "w"):
                ctx.check(float(bt.get_ndata(col)[new]) == float(np.float32(t[col][old])),
                          f"{label}/attributes", f"column {col}")
            want_pts = sorted(tuple(tuple(float(np.float32(t[c][i])) for c in "xyzr") for i in b)
                              for b in want_br if b[0] == old)
            got_list = bt.branches.get(new, [])
            got_pts = sorted(tuple(tuple(float(v) for v in row) for row in br.xyzr()) for br in got_list)
            ctx.check(got_pts == want_pts, f"{label}/remembers-branch-points",
                      lambda: f"node tagged {tg}: {len(got_list)} stored branches, expected {len(want_pts)}")
            for br in got_list:
                ctx.check(not np.shares_memory(br.attach.ndata["x"], src.ndata["x"]),
                          f"{label}/branches-detached", "stored branch shares storage with the tree")
        ctx.check(set(bt.branches) <= set(range(len(tags))), f"{label}/branch-keys", "unknown key")
        ctx.check(len(bt.get_origin_branches()) == len(want_br), f"{label}/origin-branches",
                  f"{len(bt.get_origin_branches())} != {len(want_br)}")

    # longest path
    p64 = models.xyz64(t)
    lens = [models.polyline_length(p64[list(p)]) for p in want_paths]
    lp = ToLongestPath()(tree)
    got_len = models.polyline_length(np.stack([lp.x(), lp.y(), lp.z()], axis=1).astype(np.float64))
    ctx.check(abs(got_len - max(lens)) <= 1e-4 * (1 + max(lens)), "longest_path/length",
              lambda: f"{got_len} vs max {max(lens)}")
    ctx.check(len(lp) in {len(p) for p, L in zip(want_paths, lens) if abs(L - max(lens)) <= 1e-4 * (1 + max(lens))},
              "longest_path/is-a-root-to-tip-path", f"{len(lp)} nodes")


SUBCHECKS = [
    Sub("decompose", case_strategy, run_case, quick=1500, thorough=20000, shards_quick=4,
        required={"single-node": 20, "unbranched-chain": 20, "rootdeg:1": 20, "rootdeg:2": 20,
                  "rootdeg:3+": 20, "furcations>=2": 200, "permuted": 200,
                  "derived-tree-decomposed-after-its-source:sort": 59, "derived-tree-decomposed-after-its-source:redirect": 51,
                  "source-edited-in-place-right-after-the-conversion": 300, "a-node-with-256-or-more-children": 2,
                  "re-parented-in-place-after-a-first-decomposition:reparent": 37,
                  "re-parented-in-place-after-a-first-decomposition:copy-reparent": 60,
                  "branch-tree-decomposed-as-a-tree": 150}),
]
