"""C10 — Morphometric features equal their textbook definitions."""
import math

import numpy as np
from hypothesis import strategies as st

from vlib import gen_tree, models
from vlib.harness import Sub

PROPERTY = "C10"
RULE = (
    "(features) trees of every shape class incl. coincident points and zero-length segments, root typed soma (a tree "
    "with another root type is used only to check that soma-based features refuse it loudly); float64 definitions "
    "from the float32 coordinates by parent-pointer walks: Tree.length = sum of parent-child distances = sum of "
    "branch lengths, per-branch and per-path length / straight-line distance / tortuosity (1 when the length is 0), "
    "radial distance, branch order = depth in the branch tree, node / tip / furcation counts and radial distances; "
    "extract_feature(tree).get(name) (single, list and dict forms) equals the feature classes for every supported "
    "name. (sholl) radii drawn between 0 and 1.2 rmax plus the integer-step grid; count = segments with one end at "
    "radial distance <= r and the other > r, as an interval when an end lies within 1e-5 * scale of r. (lmeasure) "
    "L-Measure quantities on any tree (stems, bifurcations, branches, tips, path / Euclidean distance, branch order, "
    "terminal degree, branch path length, fragmentation, contraction) and on binary trees in general position "
    "(partition asymmetry, local / remote bifurcation amplitude and tilt). (population) 1-5 trees: one row per tree, "
    "the tree's vector followed by zeros. Non-trivial: >= 6 nodes and >= 2 furcations."
)
ASSUMPTIONS = [
    "coordinates of magnitude below 2^-10 are snapped to 0 by the generator: the library computes in float32, where the "
    "square of a difference below ~1e-19 underflows, so angles and tortuosities of vectors that short are undefined",
    "float32 library arithmetic: lengths compared within 1e-4 * (1 + scale); angles compared through their cosine (1e-5) "
    "because arccos is ill-conditioned near 0 and 180 degrees",
    "the order of branches / paths in feature vectors is unspecified: vectors are compared as sorted multisets, and "
    "per-object through tree.get_branches() / get_paths() by node ids",
    "LMeasure.branch_order counts the furcation nodes on the root path including the node itself and the root "
    "(the library's definition); NodeFeatures branch order is the depth in the branch tree",
    "the 'volume' feature is covered by C14 (its default level runs Monte-Carlo terms at every furcation); "
    "the deprecated bifurcation_* names raise by design and are not asserted",
    "Sholl needs >= 2 nodes; the integer-step grid needs rmax > 0",
]

NAMES = ["length", "node_count", "node_radial_distance", "node_branch_order", "furcation_count",
         "furcation_radial_distance", "tip_count", "tip_radial_distance", "branch_length", "branch_tortuosity",
         "path_length", "path_tortuosity"]


def _tol(scale):
    return 1e-4 * (1.0 + scale)


def _close_sorted(ctx, clause, got, want, tol, info=""):
    got = sorted(float(v) for v in np.asarray(got).reshape(-1))
    want = sorted(float(v) for v in want)
    ctx.check(len(got) == len(want), clause + "/count", lambda: f"{len(got)} values, expected {len(want)} {info}")
    bad = [(g, w) for g, w in zip(got, want) if not abs(g - w) <= tol]
    ctx.check(not bad, clause, lambda: f"{len(bad)} values differ, first {bad[0]} (tol {tol:.3g}) {info}")


def _ref(t):
    parents = t["parents"]
    P = models.xyz64(t)
    root = parents.index(-1)
    seg = models.seg_lengths(t)
    brs = models.branches(parents)
    pths = models.paths(parents)

    def plen(ids):
        return models.polyline_length(P[list(ids)])

    def tort(ids):
        L = plen(ids)
        return 1.0 if L == 0 else float(np.linalg.norm(P[ids[-1]] - P[ids[0]])) / L

    ch = models.children(parents)
    crit = [i for i in range(len(parents)) if i == root or len(ch[i]) != 1]
    return {"P": P, "root": root, "seg": seg, "branches": brs, "paths": pths, "plen": plen, "tort": tort,
            "ch": ch, "crit": crit, "radial": np.linalg.norm(P - P[root], axis=1),
            "scale": float(np.abs(P - P[root]).max()) if len(P) else 0.0}


def _bt_depth(parents, ch, root, i):
    d = 0
    while i != root:
        i = parents[i]
        while i != root and len(ch[i]) == 1:
            i = parents[i]
        d += 1
    return d


# ----------------------------------------------------------------------------- feature classes + front end
@st.composite
def features_strategy(draw, tier):
    max_n = 25 if tier == "quick" else 120
    soma = draw(st.integers(0, 9)) != 0
    t = draw(gen_tree.tree_case(min_abs=2.0 ** -10, min_n=1, max_n=max_n, soma_root=soma, mag=1000.0))
    how = draw(st.integers(0, 9))
    if how <= 1 and len(t["parents"]) >= 3:
        # a neurite that curls back: a branch (or a whole root-to-tip path) of non-zero length whose last node sits
        # exactly on its first node - straight-line distance 0, tortuosity 0
        seqs = [b for b in (models.branches(t["parents"]) if how == 0 else models.paths(t["parents"])) if len(b) >= 3]
        if seqs:
            b = seqs[draw(st.integers(0, len(seqs) - 1))]
            for c in "xyz":
                t[c][b[-1]] = t[c][b[0]]
            t["closed_loop"] = True
    return {"tree": t, "form": draw(st.sampled_from(["single", "list", "dict"])),
            # the extractor first refused a request (an unknown feature name, alone or in the middle of a list / dict request)
            "refused_first": draw(st.integers(0, 2)) == 0,
            # the measured tree is derived from another tree that was itself measured first: re-rooted, re-sorted,
            # joined with a small second tree, or a copy re-parented in place through a node handle
            "derive": draw(st.sampled_from([None, None, None, "redirect", "sort", "cat", "copy-reparent"])),
            "derive_sel": [draw(st.integers(0, 10 ** 6)), draw(st.integers(0, 10 ** 6))]}


def _measure_everything(tree, lm=None):
    """Touch every morphometric of `tree` once (whatever it caches is now cached)."""
    if lm is not None:
        soma = int(tree.type()[0]) == 1
        for nd in tree:
            lm.path_distance(nd), lm.branch_order(nd), lm.terminal_degree(nd)
            if soma:
                lm.euc_distance(nd)
            if len(nd.children()) == 2:
                lm.partition_asymmetry(nd)
        lm.n_stems(tree), lm.n_bifs(tree), lm.n_tips(tree), lm.n_branch(tree)
    from swcgeom.analysis import extract_feature
    from swcgeom.analysis.features import BranchFeatures, FurcationFeatures, NodeFeatures, PathFeatures, TipFeatures

    nf = NodeFeatures(tree)
    nf.get_count(), TipFeatures(nf).get_count(), FurcationFeatures(nf).get_count()
    tree.length(), tree.get_tips(), tree.get_furcations(), tree.get_branches(), tree.get_paths()
    [(nd.is_tip(), nd.is_furcation(), len(nd.children())) for nd in tree]
    BranchFeatures(tree).get_length(), PathFeatures(tree).get_length()
    fe = extract_feature(tree)
    fe.get("tip_count"), fe.get("branch_length")
    if int(tree.type()[0]) == 1:
        nf.get_radial_distance(), nf.get_branch_order()


def _derive(case, ctx, t, tree, lm=None):
    """Returns (table of the derived tree, derived tree)."""
    from swcgeom.core import Tree, cat_tree, redirect_tree, sort_tree

    how, sel = case["derive"], case["derive_sel"]
    n = len(t["parents"])
    ctx.lib("measuring-the-source-tree", _measure_everything, tree, lm)
    if how == "redirect":
        k = sel[0] % n
        if t["type"][k] != t["type"][0]:
            k = 0 if t["type"][0] != 1 else k  # keep a soma-typed root a soma (re-rooting exchanges the two types)
        out = ctx.lib("redirect_tree", redirect_tree, tree, k)
    elif how == "sort":
        out = ctx.lib("sort_tree", sort_tree, tree)
    elif how == "cat":
        m = 3
        other = Tree(m, id=np.arange(m, dtype=np.int32), pid=np.array([-1, 0, 1], dtype=np.int32), type=np.array([3, 3, 3], dtype=np.int32),
                     x=np.array([0.5, 1.75, 3.25], dtype=np.float32), y=np.array([0.25, -1.5, 2.0], dtype=np.float32),
                     z=np.array([0.125, 0.75, -2.5], dtype=np.float32), r=np.ones(m, dtype=np.float32),
                     tag=np.array([900001, 900002, 900003], dtype=np.int32), w=np.zeros(m, dtype=np.float32))
        ctx.lib("measuring-the-source-tree", _measure_everything, other)
        out = ctx.lib("cat_tree", cat_tree, tree, other, sel[0] % n, sel[1] % m)
    else:
        out = ctx.lib("tree.copy", tree.copy)
        movable = [i for i in range(n) if t["parents"][i] != -1]
        if movable:
            a = movable[sel[0] % len(movable)]
            below = models.descendants_or_self(t["parents"], a)
            cands = [j for j in range(n) if j not in below]
            ctx.lib("node.pid = v", setattr, out.node(a), "pid", cands[sel[1] % len(cands)])
    ctx.cls("measured-tree-derived-from-a-measured-tree", "derived-by:" + how)
    t2 = dict(t, parents=[int(v) for v in out.pid()], type=[int(v) for v in out.type()],
              x=[float(v) for v in out.x()], y=[float(v) for v in out.y()], z=[float(v) for v in out.z()],
              r=[float(v) for v in out.r()], tag=[int(v) for v in out.get_ndata("tag")], w=[float(v) for v in out.get_ndata("w")])
    return t2, out


def run_features(case, ctx):
    from swcgeom.analysis import extract_feature
    from swcgeom.analysis.features import (BranchFeatures, FurcationFeatures, NodeFeatures, PathFeatures,
                                           TipFeatures)

    t = case["tree"]
    tree = gen_tree.build_tree(t)
    if case.get("derive"):
        t, tree = _derive(case, ctx, t, tree)
    parents = t["parents"]
    n = len(parents)
    R = _ref(t)
    tol = _tol(R["scale"])
    ch = R["ch"]
    nfurc = sum(1 for c in ch if len(c) >= 2)
    classes = gen_tree.shape_classes(t)
    zero_seg = any(R["seg"][i] == 0 for i in range(n) if parents[i] != -1)
    ctx.cls(*classes, "zero-length-segment" if zero_seg else "no-zero-length-segment",
            "soma-root" if t["type"][R["root"]] == 1 else "non-soma-root")
    if t.get("closed_loop"):
        ctx.cls("a-branch-or-path-ends-where-it-starts")
    ctx.nontrivial(n >= 6 and nfurc >= 2)

    # length
    want_len = float(R["seg"].sum())
    got_len = ctx.lib("tree.length", tree.length)
    ctx.check(abs(got_len - want_len) <= _tol(want_len + R["scale"]), "length/sum-of-parent-child-distances",
              lambda: f"got {got_len}, expected {want_len}")
    lib_brs = ctx.lib("tree.get_branches", tree.get_branches)
    sum_br = sum(float(b.length()) for b in lib_brs)
    ctx.check(abs(sum_br - want_len) <= _tol(want_len + R["scale"]), "length/equals-summed-branch-lengths",
              lambda: f"branches sum to {sum_br}, tree length {want_len}")
    # per branch / per path through ids
    for kind, objs, ref_ids in (("branch", lib_brs, R["branches"]), ("path", ctx.lib("tree.get_paths", tree.get_paths), R["paths"])):
        ctx.check(sorted(tuple(int(v) for v in o.origin_id()) for o in objs) == sorted(ref_ids), f"{kind}/decomposition",
                  "differs from the reference decomposition (see C08)")
        for o in objs:
            ids = [int(v) for v in o.origin_id()]
            L = R["plen"](ids)
            g = float(o.length())
            ctx.check(abs(g - L) <= _tol(L + R["scale"]), f"{kind}/length", lambda: f"{kind} {ids}: {g} vs {L}")
            sl = float(np.linalg.norm(R["P"][ids[-1]] - R["P"][ids[0]]))
            g = float(o.straight_line_distance())
            ctx.check(abs(g - sl) <= tol, f"{kind}/straight-line-distance", lambda: f"{kind} {ids}: {g} vs {sl}")
            g = float(o.tortuosity())
            w = R["tort"](ids)
            ctx.check(abs(g - w) <= 1e-4 * max(1.0, (1 + R["scale"]) / max(L, 1e-30)) or (L == 0 and g == 1),
                      f"{kind}/tortuosity", lambda: f"{kind} {ids}: {g} vs {w} (length {L})")
            if L == 0:
                ctx.cls(f"{kind}:zero-length")
                ctx.check(g == 1, f"{kind}/tortuosity-of-zero-length-is-1", f"{g}")

    soma_ok = t["type"][R["root"]] == 1
    nf = NodeFeatures(tree)
    ctx.check(float(nf.get_count()[0]) == n, "node/count", f"{nf.get_count()} vs {n}")
    tips = [i for i in range(n) if not ch[i]]
    furc = [i for i in range(n) if len(ch[i]) >= 2]
    tf, ff = TipFeatures(nf), FurcationFeatures(nf)
    ctx.check(float(tf.get_count()[0]) == len(tips), "tip/count", f"{tf.get_count()} vs {len(tips)}")
    ctx.check(float(ff.get_count()[0]) == len(furc), "furcation/count", f"{ff.get_count()} vs {len(furc)}")
    ctx.check(float(TipFeatures.from_tree(tree).get_count()[0]) == len(tips), "tip/from_tree", "")
    if not soma_ok:
        # soma-based features must refuse loudly, not return numbers
        try:
            v = nf.get_radial_distance()
        except ValueError:
            pass
        else:
            ctx.fail("node/radial-distance-without-soma-returned-a-value", f"{v}")
        return
    rd = ctx.lib("node.radial_distance", nf.get_radial_distance)
    ctx.check(len(rd) == n and float(np.abs(rd.astype(np.float64) - R["radial"]).max()) <= tol,
              "node/radial-distance", lambda: f"max error {float(np.abs(rd - R['radial']).max())}")
    _close_sorted(ctx, "tip/radial-distance", ctx.lib("tip.radial", tf.get_radial_distance), [R["radial"][i] for i in tips], tol)
    _close_sorted(ctx, "furcation/radial-distance", ctx.lib("furcation.radial", ff.get_radial_distance),
                  [R["radial"][i] for i in furc], tol)
    # in node order, not only as multisets
    g = tf.get_radial_distance()
    ctx.check(all(abs(float(a) - R["radial"][i]) <= tol for a, i in zip(g, tips)), "tip/radial-distance-in-node-order", "")
    want_bo = [_bt_depth(parents, ch, R["root"], i) for i in R["crit"]]
    bo = ctx.lib("node.branch_order", nf.get_branch_order)
    ctx.check(sorted(int(v) for v in bo) == sorted(want_bo), "node/branch-order-is-depth-in-branch-tree",
              lambda: f"got {sorted(int(v) for v in bo)}, expected {sorted(want_bo)} (parents {parents})")
    bt = getattr(nf, "_branch_tree", None)
    if bt is not None and "tag" in bt.keys():
        by_tag = {int(tg): int(o) for tg, o in zip(bt.get_ndata("tag"), bo)}
        for i, w in zip(R["crit"], want_bo):
            ctx.check(by_tag.get(t["tag"][i]) == w, "node/branch-order-per-node",
                      lambda: f"node {i}: {by_tag.get(t['tag'][i])} vs {w}")
    bf, pf = BranchFeatures(tree), PathFeatures(tree)
    ctx.check(bf.get_count() == len(R["branches"]), "branch/count", f"{bf.get_count()}")
    ctx.check(pf.get_count() == len(R["paths"]), "path/count", f"{pf.get_count()}")
    _close_sorted(ctx, "branch/lengths", bf.get_length(), [R["plen"](b) for b in R["branches"]], _tol(R["scale"] * 2))
    _close_sorted(ctx, "path/lengths", pf.get_length(), [R["plen"](p) for p in R["paths"]],
                  _tol(want_len + R["scale"]))
    ctx.check(len(bf.get_tortuosity()) == len(R["branches"]) and len(pf.get_tortuosity()) == len(R["paths"]),
              "tortuosity/count", "")
    # front end
    fe = extract_feature(tree)
    direct = {
        "length": np.array([tree.length()], dtype=np.float32), "node_count": nf.get_count(),
        "node_radial_distance": nf.get_radial_distance(), "node_branch_order": nf.get_branch_order(),
        "furcation_count": ff.get_count(), "furcation_radial_distance": ff.get_radial_distance(),
        "tip_count": tf.get_count(), "tip_radial_distance": tf.get_radial_distance(),
        "branch_length": bf.get_length(), "branch_tortuosity": bf.get_tortuosity(),
        "path_length": pf.get_length(), "path_tortuosity": pf.get_tortuosity(),
    }
    ctx.cls("front-end:" + case["form"])
    if case.get("refused_first"):
        for req in ("no_such_feature", ["length", "no_such_feature", "node_count"], {"tip_count": {}, "no_such_feature": {}},
                    [("branch_length", {}), ("no_such_feature", {})]):
            try:
                fe.get(req)
            except Exception:  # noqa - the refusal itself is judged at the end of this function
                pass
        ctx.cls("front-end-asked-after-a-refused-request")
    if case["form"] == "single":
        got = {k: ctx.lib(f"extract_feature.get[{k}]", fe.get, k) for k in NAMES}
    elif case["form"] == "list":
        vals = ctx.lib("extract_feature.get[list]", fe.get, list(NAMES))
        ctx.check(len(vals) == len(NAMES), "front-end/list-form-length", f"{len(vals)}")
        got = dict(zip(NAMES, vals))
    else:
        got = ctx.lib("extract_feature.get[dict]", fe.get, {k: {} for k in NAMES})
        ctx.check(list(got.keys()) == NAMES, "front-end/dict-form-keys", f"{list(got.keys())}")
    for k in NAMES:
        ctx.check(np.array_equal(np.asarray(got[k], dtype=np.float64), np.asarray(direct[k], dtype=np.float64)),
                  "front-end/returns-the-feature-class-values", lambda: f"{k}: {got[k]} vs {direct[k]}")
    try:
        fe.get("no_such_feature")
    except (ValueError, AttributeError, KeyError):
        pass
    else:
        ctx.fail("front-end/unknown-feature-accepted", "get('no_such_feature') returned")


# ----------------------------------------------------------------------------- Sholl
@st.composite
def sholl_strategy(draw, tier):
    max_n = 25 if tier == "quick" else 120
    t = draw(gen_tree.tree_case(min_abs=2.0 ** -10, min_n=2, max_n=max_n, soma_root=True, mag=1000.0))
    fr = st.floats(min_value=0.0, max_value=1.2, allow_nan=False)
    return {"tree": t, "fracs": draw(st.lists(fr, min_size=1, max_size=6)), "pick": draw(st.lists(st.integers(0, 10 ** 6), min_size=1, max_size=4)),
            "steps": draw(st.integers(1, 30)), "translate": draw(st.booleans())}


def _sholl_bounds(d, parents, r, band):
    lo = hi = 0
    for i, p in enumerate(parents):
        if p == -1:
            continue
        a, b = d[p], d[i]
        if abs(a - r) <= band or abs(b - r) <= band:
            # undecidable end: the segment may or may not be counted
            hi += 1
            continue
        if (a <= r < b) or (b <= r < a):
            lo += 1
            hi += 1
    return lo, hi


def run_sholl(case, ctx):
    from swcgeom.analysis import Sholl

    t = dict(case["tree"])
    if case["translate"]:  # root away from the origin: the profile is centred on the root, not on the origin
        t["x"] = [gen_tree.f32(v + 37.5) for v in t["x"]]
        t["y"] = [gen_tree.f32(v - 11.25) for v in t["y"]]
    parents = t["parents"]
    n = len(parents)
    tree = gen_tree.build_tree(t)
    R = _ref(t)
    d = R["radial"]
    rmax = float(d.max())
    band = 1e-5 * (1.0 + R["scale"] + float(np.abs(R["P"]).max()))
    nfurc = sum(1 for c in R["ch"] if len(c) >= 2)
    ctx.cls("root-off-origin" if case["translate"] else "root-as-generated", "rmax=0" if rmax == 0 else "rmax>0")
    ctx.nontrivial(n >= 6 and nfurc >= 2 and rmax > 0)
    sh = ctx.lib("Sholl()", Sholl, tree)
    ctx.check(abs(float(sh.rmax) - rmax) <= band * 10, "sholl/rmax", lambda: f"{sh.rmax} vs {rmax}")
    # radii: fractions of rmax, and midpoints of gaps between consecutive radial distances
    ds = sorted(set(float(v) for v in d))
    radii = [f * rmax for f in case["fracs"]]
    for k in case["pick"]:
        if len(ds) >= 2:
            j = k % (len(ds) - 1)
            radii.append(0.5 * (ds[j] + ds[j + 1]))
    radii.append(float(ds[len(ds) // 2]))  # exactly on a node's distance: decided by the band rule
    n_amb = 0
    for r in radii:
        lo, hi = _sholl_bounds(d, parents, r, band)
        if lo != hi:
            n_amb += 1
        g = int(ctx.lib("sholl.intersect", sh.intersect, r))
        ctx.check(lo <= g <= hi, "sholl/intersect-counts-straddling-segments",
                  lambda: f"r={r!r}: got {g}, expected {lo}..{hi}; parents {parents}, radial {d.tolist()}")
    if n_amb:
        ctx.ambiguous("sholl:radius-within-band-of-a-node")
    if rmax > 0 and case["pick"] and case["pick"][0] % 3 == 0:
        # an analysis object made with the deprecated `step` argument still counts at the radius it is asked about
        ctx.cls("sholl-object-made-with-the-deprecated-step-argument")
        legacy = ctx.lib("Sholl(step=)", Sholl, tree, step=max(rmax / 7.0, 1e-3))
        for r in radii[:4]:
            lo, hi = _sholl_bounds(d, parents, r, band)
            g = int(ctx.lib("sholl.intersect", legacy.intersect, r))
            ctx.check(lo <= g <= hi, "sholl/intersect-counts-straddling-segments[legacy-object]",
                      lambda: f"r={r!r}: got {g}, expected {lo}..{hi}")
    # a radius exactly equal to a node's radial distance.  The float64 reference cannot decide "<= r" there,
    # but the library's own per-end radii can once they are validated against the reference: `rs` must be the
    # (parent, child) radial distances in node order; then the straddle rule is applied here, exactly.
    rs = np.asarray(sh.rs, dtype=np.float64)
    nonroot = [i for i in range(n) if parents[i] != -1]
    ctx.check(rs.shape == (len(nonroot), 2), "sholl/end-point-radii-shape", f"{rs.shape}")
    want_rs = np.array([[d[parents[i]], d[i]] for i in nonroot])
    ctx.check(float(np.abs(rs - want_rs).max()) <= band, "sholl/end-point-radii-about-the-root",
              lambda: f"max error {float(np.abs(rs - want_rs).max())}")
    for k in case["pick"][:3]:
        j = k % len(nonroot)
        r = float(sh.rs[j, k % 2])
        want = sum(1 for a, b in rs if (a <= r < b) or (b <= r < a))
        g = int(ctx.lib("sholl.intersect", sh.intersect, sh.rs[j, k % 2]))
        ctx.check(g == want, "sholl/intersect-at-a-node-distance",
                  lambda: f"r={r!r} (end of segment {j}): got {g}, expected {want}; end radii {rs.tolist()}")
        g = int(ctx.lib("sholl.get[list]", sh.get, [sh.rs[j, k % 2]])[0])
        ctx.check(g == want, "sholl/get-at-a-node-distance", lambda: f"r={r!r}: got {g}, expected {want}")
    got = ctx.lib("sholl.get[list]", sh.get, radii)
    ctx.check(len(got) == len(radii), "sholl/get-list-length", f"{len(got)} vs {len(radii)}")
    for r, g in zip(radii, got):
        lo, hi = _sholl_bounds(d, parents, r, band)
        ctx.check(lo <= int(g) <= hi, "sholl/get-at-given-radii", lambda: f"r={r!r}: got {g}, expected {lo}..{hi}")
    if rmax > 0:
        k = case["steps"]
        grid = np.asarray(Sholl.get_rs(sh.rmax, k), dtype=np.float64)
        s = float(sh.rmax) / (k + 1)
        ctx.check(len(grid) in (k, k + 1) and all(abs(v - s * (i + 1)) <= 1e-5 * (1 + rmax) for i, v in enumerate(grid)),
                  "sholl/documented-grid", lambda: f"steps={k}: grid {grid.tolist()} rmax {sh.rmax}")
        got = ctx.lib("sholl.get[int]", sh.get, k)
        ctx.check(len(got) == len(grid), "sholl/get-steps-length", f"{len(got)} vs {len(grid)}")
        for r, g in zip(grid, got):
            lo, hi = _sholl_bounds(d, parents, float(r), band)
            ctx.check(lo <= int(g) <= hi, "sholl/get-on-the-step-grid",
                      lambda: f"steps={k} r={r!r}: got {g}, expected {lo}..{hi}")
        from swcgeom.analysis import extract_feature

        g2 = ctx.lib("extract_feature.sholl", lambda: extract_feature(tree).get("sholl", steps=k))
        ctx.check(np.array_equal(np.asarray(g2, dtype=np.float64), np.asarray(got, dtype=np.float64)),
                  "front-end/sholl", lambda: f"{g2} vs {got}")
        # one request naming the same feature more than once with different arguments (list of (name, kwargs) pairs),
        # and the same extractor asked again afterwards: every entry is answered with its own arguments
        k2 = k + 1 + k % 3
        want2 = np.asarray(ctx.lib("sholl.get[int]", sh.get, k2), dtype=np.float64)
        fe = ctx.lib("extract_feature", extract_feature, tree)
        both = ctx.lib("extract_feature.get[list of pairs]", fe.get, [("sholl", {"steps": k}), ("node_count", {}), ("sholl", {"steps": k2})])
        ctx.cls("front-end:same-feature-twice-in-one-request")
        ctx.check(len(both) == 3 and np.array_equal(np.asarray(both[0], dtype=np.float64), np.asarray(got, dtype=np.float64))
                  and np.array_equal(np.asarray(both[2], dtype=np.float64), want2),
                  "front-end/each-entry-of-a-list-request-uses-its-own-arguments",
                  lambda: f"steps={k}: {both[0]} vs {got}; steps={k2}: {both[2]} vs {want2}")
        again = ctx.lib("extract_feature.get[dict]", fe.get, {"sholl": {"steps": k2}})
        ctx.check(np.array_equal(np.asarray(again["sholl"], dtype=np.float64), want2), "front-end/same-extractor-asked-again",
                  lambda: f"steps={k2}: {again['sholl']} vs {want2}")


# ----------------------------------------------------------------------------- L-Measure
@st.composite
def lmeasure_strategy(draw, tier):
    max_n = 20 if tier == "quick" else 80
    binary = draw(st.booleans())
    if binary:
        t = draw(gen_tree.tree_case(min_abs=2.0 ** -10, min_n=3, max_n=max_n, shapes=["binary"], regimes=["float", "lattice"],
                                    soma_root=True, distinct_points=True, mag=200.0))
    else:
        t = draw(gen_tree.tree_case(min_abs=2.0 ** -10, min_n=1, max_n=max_n, soma_root=True, mag=200.0))
    return {"tree": t, "binary": binary,
            # how the measuring object was made: the option says which end of a compartment stands for it in the surface /
            # volume measures; every quantity of the statement is a property of nodes and is the same for all of these
            "lm": draw(st.sampled_from(["default", "default", "0", "kw0", "kw-1"])),
            # measured after the tree it was derived from (the same LMeasure object measures both)
            "derive": draw(st.sampled_from([None, None, None, "redirect", "sort", "copy-reparent"])),
            "derive_sel": [draw(st.integers(0, 10 ** 6)), draw(st.integers(0, 10 ** 6))]}


def _cos(a, b):
    return float(a @ b / (np.linalg.norm(a) * np.linalg.norm(b)))


def run_lmeasure(case, ctx):
    from swcgeom.analysis.lmeasure import LMeasure

    t = case["tree"]
    parents = t["parents"]
    n = len(parents)
    tree = gen_tree.build_tree(t)
    how_lm = case.get("lm", "default")
    lm = {"default": LMeasure, "0": lambda: LMeasure(0), "kw0": lambda: LMeasure(compartment_point=0),
          "kw-1": lambda: LMeasure(compartment_point=-1)}[how_lm]()
    ctx.cls("lmeasure-made-with:" + how_lm)
    if case.get("derive"):
        t, tree = _derive(case, ctx, t, tree, lm)
        parents = t["parents"]
    R = _ref(t)
    P, ch, root = R["P"], R["ch"], R["root"]
    tol = _tol(R["scale"])
    nfurc = sum(1 for c in ch if len(c) >= 2)
    n_bif2 = sum(1 for c in ch if len(c) == 2)
    ctx.cls("binary" if case["binary"] else "general", f"rootdeg:{min(len(ch[root]), 3)}")
    ctx.nontrivial(n >= 6 and nfurc >= 2)

    ntips = [0] * n
    for i in reversed(models.topo_order(parents)):
        ntips[i] = 1 if not ch[i] else sum(ntips[c] for c in ch[i])
    ctx.check(lm.n_stems(tree) == len(ch[root]), "lmeasure/n_stems", f"{lm.n_stems(tree)} vs {len(ch[root])}")
    ctx.check(lm.n_bifs(tree) == nfurc, "lmeasure/n_bifs", f"{lm.n_bifs(tree)} vs {nfurc}")
    ctx.check(lm.n_tips(tree) == sum(1 for c in ch if not c), "lmeasure/n_tips", f"{lm.n_tips(tree)}")
    ctx.check(lm.n_branch(tree) == len(R["branches"]), "lmeasure/n_branch", f"{lm.n_branch(tree)} vs {len(R['branches'])}")
    for i in range(n):
        nd = tree.node(i)
        anc = [i] + models.ancestors(parents, i)
        want_order = sum(1 for j in anc if len(ch[j]) >= 2)
        ctx.check(lm.branch_order(nd) == want_order, "lmeasure/branch_order", lambda: f"node {i}: {lm.branch_order(nd)} vs {want_order}")
        ctx.check(lm.terminal_degree(nd) == ntips[i], "lmeasure/terminal_degree", lambda: f"node {i}: {lm.terminal_degree(nd)} vs {ntips[i]}")
        pd = sum(R["seg"][j] for j in anc if parents[j] != -1)
        g = float(lm.path_distance(nd))
        ctx.check(abs(g - pd) <= _tol(pd + R["scale"]), "lmeasure/path_distance", lambda: f"node {i}: {g} vs {pd}")
        g = float(lm.euc_distance(nd))
        ctx.check(abs(g - R["radial"][i]) <= tol, "lmeasure/euc_distance", lambda: f"node {i}: {g} vs {R['radial'][i]}")
    for b in ctx.lib("tree.get_branches", tree.get_branches):
        ids = [int(v) for v in b.origin_id()]
        L = R["plen"](ids)
        g = float(lm.branch_pathlength(b))
        ctx.check(abs(g - L) <= _tol(L + R["scale"]), "lmeasure/branch_pathlength", lambda: f"{ids}: {g} vs {L}")
        ctx.check(lm.fragmentation(b) == len(ids) - 1, "lmeasure/fragmentation", lambda: f"{ids}: {lm.fragmentation(b)}")
        if L > 1e-3 * (1 + R["scale"]):
            w = float(np.linalg.norm(P[ids[-1]] - P[ids[0]])) / L
            g = float(lm.contraction(b))
            ctx.check(abs(g - w) <= 1e-3, "lmeasure/contraction", lambda: f"{ids}: {g} vs {w}")
    if not case["binary"]:
        return
    ctx.cls("bifurcations>=2" if n_bif2 >= 2 else "bifurcations<2")

    def branch_end(c):
        while len(ch[c]) == 1:
            c = ch[c][0]
        return c

    def cmp_angle(clause, got, cands, info):
        got = float(got)
        ctx.check(0.0 <= got <= 180.0 + 1e-6, clause + "/range-degrees", lambda: f"{got} {info}")
        want_cos = max(cands)  # the smaller angle has the larger cosine
        ctx.check(abs(math.cos(math.radians(got)) - want_cos) <= 1e-5, clause,
                  lambda: f"got {got} deg, expected {math.degrees(math.acos(max(-1, min(1, want_cos))))} deg {info}")

    for i in range(n):
        if len(ch[i]) != 2:
            continue
        nd = tree.node(i)
        # children in the library's order
        lib_ch = [int(c.id) for c in nd.children()]
        ctx.check(sorted(lib_ch) == sorted(ch[i]), "lmeasure/children", f"node {i}")
        a, b = ch[i]
        n1, n2 = ntips[a], ntips[b]
        want = 0.0 if n1 == n2 else abs(n1 - n2) / (n1 + n2 - 2)
        g = float(lm.partition_asymmetry(nd))
        ctx.check(abs(g - want) <= 1e-9, "lmeasure/partition_asymmetry", lambda: f"node {i}: {g} vs {want} (tips {n1},{n2})")
        v1, v2 = P[a] - P[i], P[b] - P[i]
        w1, w2 = P[branch_end(a)] - P[i], P[branch_end(b)] - P[i]
        cmp_angle("lmeasure/bif_ampl_local", lm.bif_ampl_local(nd), [_cos(v1, v2)], f"node {i}")
        cmp_angle("lmeasure/bif_ampl_remote", lm.bif_ampl_remote(nd), [_cos(w1, w2)], f"node {i}")
        if parents[i] != -1:
            v = P[parents[i]] - P[i]
            cmp_angle("lmeasure/bif_tilt_local", lm.bif_tilt_local(nd), [_cos(v, v1), _cos(v, v2)], f"node {i}")
            cmp_angle("lmeasure/bif_tilt_remote", lm.bif_tilt_remote(nd), [_cos(v, w1), _cos(v, w2)], f"node {i}")


# ----------------------------------------------------------------------------- population
@st.composite
def population_strategy(draw, tier):
    k = draw(st.integers(1, 5))
    trees = [draw(gen_tree.tree_case(min_abs=2.0 ** -10, min_n=2, max_n=14, soma_root=True, mag=200.0, extras=False)) for _ in range(k)]
    # the same extractor object is asked again: the same feature with other arguments, other features in between
    return {"trees": trees, "steps": draw(st.integers(1, 12)),
            "again": draw(st.lists(st.one_of(st.integers(1, 12), st.sampled_from(NAMES)), min_size=1, max_size=4))}


def run_population(case, ctx):
    from swcgeom.analysis import Sholl, extract_feature
    from swcgeom.core import Population

    trees = [gen_tree.build_tree(t, extras=False) for t in case["trees"]]
    sizes = [len(t) for t in trees]
    ctx.cls(f"population:{len(trees)}", "differing-sizes" if len(set(sizes)) > 1 else "equal-sizes")
    ctx.nontrivial(len(trees) >= 2 and len(set(sizes)) > 1)
    pop = Population(trees)
    fe = ctx.lib("extract_feature(Population)", extract_feature, pop)
    for name in NAMES:
        rows = ctx.lib(f"population.get[{name}]", fe.get, name)
        single = [np.asarray(extract_feature(t).get(name), dtype=np.float32).reshape(-1) for t in trees]
        width = max(len(v) for v in single)
        ctx.check(np.asarray(rows).shape == (len(trees), width), "population/one-row-per-tree",
                  lambda: f"{name}: shape {np.asarray(rows).shape}, expected {(len(trees), width)}")
        for i, v in enumerate(single):
            ctx.check(np.array_equal(np.asarray(rows[i][:len(v)], dtype=np.float64), v.astype(np.float64)),
                      "population/row-is-the-tree-vector", lambda: f"{name} row {i}: {rows[i]} vs {v}")
            ctx.check(not np.any(np.asarray(rows[i][len(v):])), "population/padded-with-zeros",
                      lambda: f"{name} row {i}: tail {rows[i][len(v):]}")
    # Sholl over a population: common radii from the largest rmax
    shs = [Sholl(t) for t in trees]
    rmax = max(float(s.rmax) for s in shs)
    def sholl_request(k, clause):
        rows = ctx.lib("population.get[sholl]", fe.get, "sholl", steps=k)
        rs = Sholl.get_rs(rmax=max(s.rmax for s in shs), steps=k)
        ctx.check(np.asarray(rows).shape == (len(trees), len(rs)), f"population/{clause}-shape",
                  lambda: f"steps={k}: {np.asarray(rows).shape} vs {(len(trees), len(rs))}")
        for i, s in enumerate(shs):
            ctx.check(np.array_equal(np.asarray(rows[i], dtype=np.float64), np.asarray(s.get(rs), dtype=np.float64)),
                      f"population/{clause}-row", lambda: f"steps={k} row {i}: {rows[i]} vs {s.get(rs)}")

    if rmax > 0:
        sholl_request(case["steps"], "sholl")
    asked = {case["steps"]}
    for req in case.get("again", []):
        if isinstance(req, int):
            if rmax > 0:
                if req not in asked:
                    ctx.cls("same-feature-asked-again-with-other-arguments")
                asked.add(req)
                sholl_request(req, "sholl-asked-again")
        else:
            rows = ctx.lib(f"population.get[{req}]", fe.get, req)
            for i, t in enumerate(trees):
                v = np.asarray(extract_feature(t).get(req), dtype=np.float64).reshape(-1)
                ctx.check(np.array_equal(np.asarray(rows[i][:len(v)], dtype=np.float64), v), "population/asked-again-row",
                          lambda: f"{req} row {i}: {rows[i]} vs {v}")


SUBCHECKS = [
    Sub("features", features_strategy, run_features, quick=2000, thorough=20000, shards_quick=4,
        required={"furcations>=2": 150, "zero-length-segment": 80, "non-soma-root": 20, "rootdeg:1": 40,
                  "rootdeg:3+": 40, "single-node": 3, "front-end:list": 50, "front-end-asked-after-a-refused-request": 150, "front-end:dict": 50,
                  "branch:zero-length": 5, "measured-tree-derived-from-a-measured-tree": 400, "derived-by:redirect": 60,
                  "derived-by:sort": 60, "derived-by:cat": 60, "derived-by:copy-reparent": 60,
                  "a-branch-or-path-ends-where-it-starts": 150}),
    Sub("sholl", sholl_strategy, run_sholl, quick=2400, thorough=30000, shards_quick=4,
        required={"root-off-origin": 200, "rmax>0": 300, "sholl-object-made-with-the-deprecated-step-argument": 100,
                  "front-end:same-feature-twice-in-one-request": 100}),
    Sub("lmeasure", lmeasure_strategy, run_lmeasure, quick=1500, thorough=16000, shards_quick=4,
        required={"binary": 100, "general": 100, "bifurcations>=2": 50, "measured-tree-derived-from-a-measured-tree": 300,
                  "lmeasure-made-with:0": 100, "lmeasure-made-with:kw0": 100}),
    Sub("population", population_strategy, run_population, quick=400, thorough=3000, shards_quick=4,
        required={"differing-sizes": 40, "population:1": 5, "same-feature-asked-again-with-other-arguments": 40}),
]
