"""C03 — Every tree operation returns a well-formed tree and leaves its inputs untouched."""
import io
import math

import numpy as np
from hypothesis import strategies as st

from vlib import gen_tree, models
from vlib.harness import Enumerate, Machine, Sub

PROPERTY = "C03"
RULE = (
    "Stateful machine. State: a pool of well-formed trees (two generated tagged trees to start with, numbered parent-before-child or in any "
    "order that keeps the root at 0; every well-formed "
    "result of at most 60 nodes joins the pool) and, for each, a deep model snapshot (bytes of every column, comments, "
    "source). Rules draw an operation and its arguments from the current pool: sort_tree, get_subtree(n), "
    "to_subtree(removals), cut_tree (enter / leave with a drawn decision mask / no callback), redirect_tree(n, sort on / "
    "off), cat_tree(t1, t2, n1, n2, translate), CutByType, CutAxonTree, CutDendriteTree, CutByFurcationOrder(k), "
    "CutShortTipBranch(t), Translate, Scale, Rotate, RotateX/Y/Z (both centre modes), TranslateOrigin, Normalizer, "
    "RadiusReseter, TreeSmoother(k), IsometricResampler(d), SWC write -> read, Transforms(op, op[, op]), and `scribble`, "
    "which edits a pooled tree in place through a node handle and applies the same edit to its model. Oracle after every "
    "rule: (1) the result is well-formed by the reference predicate (ids 0..n-1, node 0 the only root, parents in range, "
    "every node reaches the root; parents before children for sort_tree, cat_tree and redirect_tree(sort=True); "
    "redirect_tree(sort=False): the requested node is the unique root at its old position, rows in place); (2) every "
    "input equals its snapshot; (3) no output column shares memory with an input column; (4) invariant: every pooled tree "
    "equals its model, so an edit leaking through shared storage is caught at the step where it happens; (5) "
    "Transforms(a, b, c)(t) equals c(b(a(t))). An exception on admissible arguments is a violation. Non-trivial: a history "
    "with >= 3 tree-producing steps of >= 2 operation families on a tree of >= 4 nodes and a scribble after a derived tree exists."
)
ASSUMPTIONS = [
    "Normalizer divides by each column's maximum: a result with non-finite coordinates is checked for topology and purity but not pooled",
    "the SWC round trip is applied to trees with finite values only (C01's domain); scale factors are non-zero; spacings > 0",
    "an operation whose rule removes every node returns the 0-node tree (the exact survivor sets are C06's subject)",
]

N_OPS = 27
FAMILY = {}


def init_strategy(tier):
    mx = 12 if tier == "quick" else 30
    t = gen_tree.tree_case(min_n=1, max_n=mx, regimes=["lattice", "coincident"], soma_root=None, permute=None, types_max=4)
    return st.tuples(t, t).map(list)


OPARGS = lambda tier: st.lists(st.integers(0, 10 ** 6), min_size=6, max_size=6)  # noqa
SCRIB = lambda tier: st.lists(st.integers(0, 10 ** 6), min_size=4, max_size=4)  # noqa


class _Entry:
    def __init__(self, tree):
        self.tree = tree
        self.snap = _snapshot(tree)


def _snapshot(tree):
    return {"cols": {k: v.copy() for k, v in tree.ndata.items()}, "comments": list(tree.comments), "source": tree.source}


def _same(tree, snap):
    if set(tree.ndata) != set(snap["cols"]):
        return f"columns {sorted(tree.ndata)} vs {sorted(snap['cols'])}"
    for k, v in snap["cols"].items():
        a = tree.ndata[k]
        if a.shape != v.shape or a.dtype != v.dtype or a.tobytes() != v.tobytes():
            return f"column {k}: {a.tolist()[:12]} vs {v.tolist()[:12]}"
    if list(tree.comments) != snap["comments"]:
        return "comments changed"
    if tree.source != snap["source"]:
        return "source changed"
    return None


class _State:
    def __init__(self, init):
        self.pool = []
        for t in init:
            for c in "xyz":  # keep coordinates within +-32
                t[c] = [((v * 8) % 512 - 256) / 8.0 for v in t[c]]
            self.pool.append(_Entry(gen_tree.build_tree(t, source="", comments=["made by the harness"])))
        self.produced = 0
        self.families = set()
        self.scribble_after_derived = False
        self.big_input = False
        self.unpooled = 0
        self.kept = {}


def start(init, ctx):
    if any(any(p > i for i, p in enumerate(t["parents"])) for t in init):
        ctx.cls("start:numbering-not-parent-before-child")
    return _State(init)


def _mean_seg(tree):
    xyz = np.stack([tree.x(), tree.y(), tree.z()], axis=1).astype(np.float64)
    p = tree.pid()
    d = [np.linalg.norm(xyz[i] - xyz[p[i]]) for i in range(len(p)) if p[i] >= 0]
    d = [v for v in d if v > 0]
    return float(np.mean(d)) if d else 1.0


def _make_op(code, a, s):
    """Returns (name, family, fn(tree) -> Tree, inputs_extra, kind) for single-tree transforms (usable in Transforms)."""
    from swcgeom import transforms as T

    p1, p2, p3 = a[3], a[4], a[5]
    ang = (p1 % 1257) / 100.0 - 6.28
    axis = np.array([(p1 % 7) - 3, (p2 % 7) - 3, (p3 % 5) - 2], dtype=np.float64)
    if not axis.any():
        axis = np.array([0.0, 0.6, 0.8])
    axis = axis / np.linalg.norm(axis)
    centre = ["origin", "root", "soma"][p3 % 3]
    sc = [math.exp(((v % 300) - 150) / 100.0) * (-1 if v % 11 == 0 else 1) for v in (p1, p2, p3)]
    table = {
        9: ("CutByType", "prune", lambda: T.CutByType(p1 % 5)),
        10: ("CutAxonTree", "prune", lambda: T.CutAxonTree()),
        11: ("CutDendriteTree", "prune", lambda: T.CutDendriteTree()),
        12: ("CutByFurcationOrder", "prune", lambda: T.CutByFurcationOrder(p1 % 5)),
        13: ("CutShortTipBranch", "prune", lambda: T.CutShortTipBranch((p1 % 80) / 8.0)),
        14: ("Translate", "geometry", lambda: T.Translate((p1 % 161 - 80) / 8.0, (p2 % 161 - 80) / 8.0, (p3 % 161 - 80) / 8.0)),
        15: ("Scale", "geometry", lambda: T.Scale(sc[0], sc[1], sc[2], center=centre)),
        16: ("Rotate", "geometry", lambda: T.Rotate(axis, ang, center=centre)),
        17: ("RotateX", "geometry", lambda: T.RotateX(ang, center=centre)),
        18: ("RotateY", "geometry", lambda: T.RotateY(ang, center=centre)),
        19: ("RotateZ", "geometry", lambda: T.RotateZ(ang, center=centre)),
        20: ("TranslateOrigin", "geometry", lambda: T.TranslateOrigin()),
        21: ("Normalizer", "geometry", lambda: T.Normalizer()),
        22: ("RadiusReseter", "geometry", lambda: T.RadiusReseter((p1 % 40 + 1) / 8.0)),
        23: ("TreeSmoother", "shape", lambda: T.TreeSmoother(p1 % 7 + 1)),
        24: ("IsometricResampler", "shape", None),
    }
    return table.get(code)


def _cols_equal(a, b):
    if set(a.ndata) != set(b.ndata):
        return False
    return all(np.array_equal(a.ndata[k], b.ndata[k], equal_nan=True) for k in a.ndata)


def apply(s, name, a, ctx):
    from swcgeom import transforms as T
    from swcgeom.core import Tree, cat_tree, cut_tree, get_subtree, redirect_tree, sort_tree, to_subtree

    if name == "scribble":
        e = s.pool[a[0] % len(s.pool)]
        n = len(e.tree)
        if n == 0:
            return
        i = a[1] % n
        col = ["x", "y", "z", "r", "type", "tag", "w"][a[2] % 7]
        if col not in e.tree.ndata:
            col = "x"
        val = (a[3] % 400 + 1) / 8.0 if col in "xyzrw" else a[3] % 5
        nd = e.tree.node(i)
        nd[col] = val
        e.snap["cols"][col][i] = val
        if s.produced:
            s.scribble_after_derived = True
        return

    e1 = s.pool[a[1] % len(s.pool)]
    e2 = s.pool[a[2] % len(s.pool)]
    t = e1.tree
    n = len(t)
    code = a[0] % N_OPS
    inputs = [e1]
    require_sorted = False
    nosort_root = None
    allow_empty = False
    k = a[3] % n
    mask = a[4]
    flagged = lambda nid: bool((mask >> (int(nid) % 20)) & 1) and (mask % 3 != 0 or nid != 0)  # noqa

    if code == 0:
        label, fam, fn, require_sorted = "sort_tree", "structure", (lambda: sort_tree(t)), True
    elif code == 1:
        label, fam, fn = "get_subtree", "structure", (lambda: get_subtree(t, k))
    elif code == 2:
        rem = [i for i in range(n) if (mask >> (i % 20)) & 1] + ([k] if a[5] % 2 else [])
        label, fam, fn, allow_empty = "to_subtree", "structure", (lambda: to_subtree(t, rem)), True
    elif code == 3:
        label, fam, allow_empty = "cut_tree[enter]", "structure", True
        fn = lambda: cut_tree(t, enter=lambda nd, par: ((par or 0) + 1, flagged(nd.id)))  # noqa
    elif code == 4:
        label, fam, allow_empty = "cut_tree[leave]", "structure", True
        fn = lambda: cut_tree(t, leave=lambda nd, ch: (1 + sum(ch), flagged(nd.id)))  # noqa
    elif code == 5:
        label, fam, fn = "cut_tree[none]", "structure", (lambda: cut_tree(t))
    elif code == 6:
        label, fam, fn, require_sorted = "redirect_tree[sort]", "structure", (lambda: redirect_tree(t, k, sort=True)), True
    elif code == 7:
        label, fam, fn, nosort_root = "redirect_tree[nosort]", "structure", (lambda: redirect_tree(t, k, sort=False)), k
    elif code == 8:
        k2 = a[5] % len(e2.tree)
        tr = bool(a[4] % 2)
        inputs = [e1, e2]
        label, fam, require_sorted = "cat_tree", "structure", True
        fn = lambda: cat_tree(t, e2.tree, k, k2, translate=tr)  # noqa
    elif code in (25,):
        label, fam = "swc-round-trip", "io"
        if not all(np.all(np.isfinite(t.ndata[c])) for c in "xyzr"):
            return
        off = [1, 0, 0, 7, 1000][a[3] % 5]
        label = f"swc-round-trip[id_offset={off}]"
        fn = lambda: Tree.from_swc(io.StringIO(t.to_swc(id_offset=off)))  # noqa
    elif code == 26:
        # Transforms(a, b[, c]) equals sequential application
        codes = [9 + (a[3] + j * 7) % 15 for j in range(2 + a[5] % 2)]
        parts = []
        for j, c in enumerate(codes):
            sub = list(a)
            sub[3], sub[4], sub[5] = a[3] + 13 * j, a[4] + 7 * j, a[5] + 3 * j
            spec = _make_op(c, sub, s)
            if spec is None or spec[2] is None:
                spec = ("RadiusReseter", "geometry", lambda: T.RadiusReseter(1.5))
            parts.append(spec)
        label, fam, allow_empty = "Transforms(" + ",".join(p[0] for p in parts) + ")", "compose", True
        objs = [p[2]() for p in parts]

        def fn():
            seq = t
            for j, o in enumerate(objs):
                seq = o(seq)
                if len(seq) == 0 and j < len(objs) - 1:
                    # an empty tree ends the pipeline: the remaining parts have no admissible input
                    ctx.ambiguous("compose:pipeline-emptied-before-its-last-part")
                    return None
            out = T.Transforms(*objs)(t)
            ctx.check(len(out) == len(seq) and (len(out) == 0 or _cols_equal(out, seq)),
                      "compose/Transforms-equals-sequential-application",
                      lambda: f"{label}: composed result differs from applying the parts one after the other")
            return out
    else:
        spec = _make_op(code, a, s)
        label, fam = spec[0], spec[1]
        allow_empty = fam == "prune"
        if spec[0] == "IsometricResampler":
            d = max(_mean_seg(t) * (0.3 + (a[3] % 28) / 10.0), 0.05)
            fn = lambda: T.IsometricResampler(d)(t)  # noqa
        else:
            # transform objects are kept and used again (on other trees, on their own results): one object, many calls
            if a[5] % 2 and code in s.kept:
                obj = s.kept[code]
                ctx.cls("transform-object-used-again")
            else:
                obj = s.kept[code] = spec[2]()
            again = fam == "geometry" and a[4] % 3 == 0

            def fn():
                out = obj(t)
                if again and len(out) > 0 and all(np.all(np.isfinite(out.ndata[c])) for c in "xyzr"):
                    before = _snapshot(out)
                    out2 = obj(out)
                    ctx.cls("transform-applied-to-its-own-result")
                    diff = _same(out, before)
                    ctx.check(diff is None, f"{label}/earlier-result-changed-by-the-next-call", diff)
                    for ko, vo in out2.ndata.items():
                        for ki, vi in out.ndata.items():
                            ctx.check(not np.shares_memory(vo, vi), f"{label}/results-of-two-calls-share-storage", f"{ko} / {ki}")
                return out

    if n == 0:
        return
    if n >= 4:
        s.big_input = True
    if label.startswith("Transforms") and n > 0 and any(len(x.tree) == 0 for x in inputs):
        return
    out = ctx.lib(label, fn)
    if out is None:
        return

    for e in inputs:
        diff = _same(e.tree, e.snap)
        ctx.check(diff is None, f"{label}/input-modified", diff)
    ctx.check(isinstance(out, Tree), f"{label}/returns-a-tree", f"{type(out).__name__}")
    for e in inputs:
        ctx.check(out is not e.tree, f"{label}/returns-a-new-tree", "the input object itself was returned")
        for ko, vo in out.ndata.items():
            for ki, vi in e.tree.ndata.items():
                ctx.check(not np.shares_memory(vo, vi), f"{label}/shares-storage-with-input", f"output column {ko} / input column {ki}")
    m = len(out)
    ids, pids = [int(v) for v in out.id()], [int(v) for v in out.pid()]
    if m == 0:
        ctx.check(allow_empty, f"{label}/empty-result", "0-node tree from an operation that removes nothing")
        s.families.add(fam)
        return
    if nosort_root is not None:
        roots = [i for i, p in enumerate(pids) if p == -1]
        ctx.check(ids == list(range(m)) and m == n, f"{label}/ids", lambda: f"{ids}")
        ctx.check(roots == [nosort_root], f"{label}/requested-node-is-the-unique-root-at-its-old-position", lambda: f"roots {roots}, requested {nosort_root}")
        ctx.check(all(0 <= p < m for i, p in enumerate(pids) if i != nosort_root), f"{label}/parents-in-range", lambda: f"{pids}")
        for i in range(m):
            j, steps = i, 0
            while pids[j] != -1:
                j = pids[j]
                steps += 1
                ctx.check(steps <= m, f"{label}/every-node-reaches-the-root", f"node {i}")
        for c in ("x", "y", "z", "r", "tag"):
            if c in t.ndata:
                ctx.check(np.array_equal(out.ndata[c], t.ndata[c]), f"{label}/rows-stay-in-place", f"column {c}")
        s.produced += 1
        s.families.add(fam)
        return
    reason = models.wellformed(ids, pids, require_sorted=require_sorted)
    ctx.check(reason is None, f"{label}/well-formed", lambda: f"{reason}; ids {ids[:20]} pids {pids[:20]}")
    for kcol, v in out.ndata.items():
        ctx.check(len(v) == m, f"{label}/column-lengths", f"column {kcol} has {len(v)} rows for {m} nodes")
    s.produced += 1
    s.families.add(fam)
    finite = all(np.all(np.isfinite(out.ndata[c])) for c in "xyzr")
    sorted_ok = all(p < i for i, p in enumerate(pids))
    if m <= 60 and finite and sorted_ok and float(np.abs(out.xyz()).max()) < 1e4:
        if len(s.pool) >= 8:
            s.pool.pop(2 + a[5] % (len(s.pool) - 2))
        s.pool.append(_Entry(out))
    else:
        s.unpooled += 1


# ----------------------------------------------------------------------------- large trees
BULK_N = [255, 256, 257, 32767, 32768, 32769, 40000, 50000, 65535, 65536, 65537, 70000]


@st.composite
def bulk_strategy(draw, tier):
    return {"tree": {"bulk": [draw(st.integers(0, 2 ** 31 - 1)), draw(st.sampled_from(BULK_N)),
                              draw(st.sampled_from(["uniform", "caterpillar", "binary", "hubs"])), "lattice"]},
            "sel": draw(st.lists(st.integers(0, 10 ** 6), min_size=4, max_size=4)),
            "ops": draw(st.lists(st.sampled_from(["sort", "subtree", "to_subtree", "cut_type", "redirect", "redirect-nosort",
                                                   "cat", "translate", "swc"]), min_size=3, max_size=5, unique=True))}


def bulk_cases(tier):
    """Every boundary size once (quick) / with every shape (thorough); which shape, nodes and operations go with a size is a
    pure function of VERIF_SEED."""
    import os
    import random

    rnd = random.Random(int(os.environ.get("VERIF_SEED", "1") or 1) * 7919 + 3)
    shapes = ["uniform", "caterpillar", "binary", "hubs"]
    ops = ["sort", "subtree", "to_subtree", "cut_type", "redirect", "redirect-nosort", "cat", "translate", "swc"]
    for k, n in enumerate(BULK_N * (1 if tier == "quick" else 3)):
        for shape in (shapes if tier != "quick" else [shapes[(k + rnd.randrange(4)) % 4], "uniform"]):
            yield {"tree": {"bulk": [rnd.randrange(2 ** 31 - 1), n, shape, "lattice"]},
                   "sel": [rnd.randrange(10 ** 6) for _ in range(4)], "ops": rnd.sample(ops, 3 + rnd.randrange(3))}


def _wellformed_np(ids, pids, root=0):
    n = len(ids)
    if not np.array_equal(ids, np.arange(n)):
        return "ids are not 0..n-1"
    if pids[root] != -1 or int((pids == -1).sum()) != 1:
        return f"roots {np.nonzero(pids == -1)[0][:5].tolist()}, expected only {root}"
    others = np.delete(pids, root)
    if others.size and (others.min() < 0 or others.max() >= n):
        return f"a parent id names no node (min {int(others.min())}, max {int(others.max())})"
    # every node reaches the root: pointer jumping
    up = pids.astype(np.int64).copy()
    up[root] = root
    for _ in range(max(1, int(np.ceil(np.log2(max(n, 2)))) + 1)):
        up = up[up]
    if not np.all(up == root):
        return f"node {int(np.nonzero(up != root)[0][0])} does not reach the root"
    return None


def run_bulk(case, ctx):
    from swcgeom import transforms as T
    from swcgeom.core import Tree, cat_tree, get_subtree, redirect_tree, sort_tree, to_subtree

    t = gen_tree.materialize(case["tree"])
    n = len(t["parents"])
    tree = gen_tree.build_tree(t)
    snap = _snapshot(tree)
    par = np.array(t["parents"])
    ctx.cls(f"bulk:n={n}", "bulk:" + t["shape"])
    ctx.nontrivial(True)
    sel = case["sel"]
    tips = np.setdiff1d(np.arange(n), par[1:])
    for op in case["ops"]:
        root = 0
        need_sorted = False
        if op == "sort":
            out, need_sorted = ctx.lib("sort_tree", sort_tree, tree), True
        elif op == "subtree":
            # the subtree below a child of the root (usually most of the tree) or below a random node
            k = int(np.nonzero(par == 0)[0][sel[0] % max(1, int((par == 0).sum()))]) if sel[1] % 2 else sel[0] % n
            out = ctx.lib("get_subtree", get_subtree, tree, k)
        elif op == "to_subtree":
            rem = [int(tips[(sel[1] + 7 * j) % len(tips)]) for j in range(1 + sel[2] % 5)]
            out = ctx.lib("to_subtree", to_subtree, tree, rem)
            ctx.check(len(out) == n - len(set(rem)), "bulk/to_subtree/node-count", f"{len(out)} of {n} after removing {len(set(rem))} tips")
        elif op == "cut_type":
            typ = int(t["type"][int(tips[sel[2] % len(tips)])])
            out = ctx.lib("CutByType", lambda: T.CutByType(typ if typ != 1 else 0)(tree))
        elif op in ("redirect", "redirect-nosort"):
            k = sel[3] % n
            out = ctx.lib(op, redirect_tree, tree, k, sort=op == "redirect")
            need_sorted = op == "redirect"
            root = 0 if op == "redirect" else k
            ctx.check(len(out) == n, f"bulk/{op}/node-count", f"{len(out)} of {n}")
        elif op == "cat":
            small = gen_tree.build_tree(gen_tree.bulk_tree_case(sel[0] % 1000, 5 + sel[1] % 40, regime="lattice"))
            out, need_sorted = ctx.lib("cat_tree", cat_tree, tree, small, sel[2] % n, sel[3] % len(small), translate=bool(sel[0] % 2)), True
        elif op == "translate":
            out = ctx.lib("Translate", lambda: T.Translate(1.0, -2.0, 0.5)(tree))
            ctx.check(len(out) == n, "bulk/translate/node-count", f"{len(out)} of {n}")
        else:
            off = [1, 0, 7][sel[2] % 3]
            out = ctx.lib("swc-round-trip", lambda: Tree.from_swc(io.StringIO(tree.to_swc(id_offset=off))))
            ctx.check(np.array_equal(out.pid(), par), "bulk/swc-round-trip/parents", f"id_offset={off}")
        m = len(out)
        if 32769 <= m <= 65535:
            ctx.cls("bulk:result-of-32769..65535-nodes")
        if m:
            ids, pids = np.asarray(out.id()).astype(np.int64), np.asarray(out.pid()).astype(np.int64)
            reason = _wellformed_np(ids, pids, root)
            if reason is None and need_sorted and not np.all(pids[1:] < ids[1:]):
                reason = "a parent does not precede its child"
            ctx.check(reason is None, f"bulk/{op}/well-formed", lambda: f"{reason} (input of {n} nodes, result of {m})")
            for kcol, v in out.ndata.items():
                ctx.check(len(v) == m, f"bulk/{op}/column-lengths", f"column {kcol} has {len(v)} rows for {m} nodes")
                for ki, vi in tree.ndata.items():
                    ctx.check(not np.shares_memory(v, vi), f"bulk/{op}/shares-storage-with-input", f"{kcol} / {ki}")
        diff = _same(tree, snap)
        ctx.check(diff is None, f"bulk/{op}/input-modified", diff)


def invariant(s, ctx):
    for k, e in enumerate(s.pool):
        diff = _same(e.tree, e.snap)
        if diff is not None:
            ctx.fail("pool/a-tree-changed-without-being-edited", f"pooled tree {k}: {diff}")


def finish(s, ctx):
    ctx.cls(f"families:{min(len(s.families), 4)}", "steps>=3" if s.produced >= 3 else "steps<3")
    if s.scribble_after_derived:
        ctx.cls("scribble-after-derived")
    for f in sorted(s.families):
        ctx.cls("family:" + f)
    ctx.nontrivial(s.produced >= 3 and len(s.families) >= 2 and s.big_input and s.scribble_after_derived)


SUBCHECKS = [
    Machine("pipeline", init_strategy, {"op": OPARGS, "op2": OPARGS, "op3": OPARGS, "op4": OPARGS, "scribble": SCRIB}, start, apply, invariant, finish,
            quick=1600, thorough=10000, steps_quick=30, steps_thorough=60, shards_quick=8,
            required={"scribble-after-derived": 150, "family:structure": 200, "family:prune": 150, "family:geometry": 200,
                      "family:shape": 100, "family:io": 60, "family:compose": 60, "steps>=3": 250,
                      "start:numbering-not-parent-before-child": 100, "transform-object-used-again": 150,
                      "transform-applied-to-its-own-result": 100}),
    Enumerate("bulk", bulk_cases, run_bulk, shards_quick=8, shards_thorough=16,
              required={"bulk:result-of-32769..65535-nodes": 3, "bulk:n=256": 1, "bulk:n=65536": 1}, exhaustive=False),
]
