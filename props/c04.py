"""C04 — Tree traversal is structural recursion, at any depth."""
import sys

import numpy as np
from hypothesis import strategies as st

from vlib import gen_tree, models
from vlib.harness import Sub

PROPERTY = "C04"
RULE = (
    "Trees of every shape class (uniform, chain, star, binary, caterpillar, forced root degree) with "
    "the non-root ids permuted (root stays 0), a start node anywhere, callback mode enter/leave/both "
    "and entry point swc_utils.traverse / Tree.traverse(root=) / Tree.Node.traverse; callbacks are "
    "recording closures returning unique tokens (the `leave` closure may, after reading it, append to / clear / reverse the "
    "list it was handed); the oracle is computed from parent pointers. "
    "Non-trivial: >= 5 nodes, start node neither the root nor a tip, both callbacks, and a furcation "
    "inside the visited subtree. Depth family: chains / caterpillars / combs of 10^4 (quick) and 10^5 "
    "(thorough) nodes, and 3000-deep trees traversed with the interpreter recursion limit lowered to "
    "current depth + 80; every depth case counts as non-trivial."
)
ASSUMPTIONS = [
    "the order in which siblings are visited is unspecified; children's values are compared as multisets",
]

ENTRIES = ["swc_utils", "tree", "node"]
# how the start node's handle is obtained for Tree.Node.traverse
HANDLES = ["node(i)", "tree[i]", "tree[i-n]", "tree[i:i+1][0]", "iteration"]
MODES = ["enter", "leave", "both"]


@st.composite
def structure_case(draw, tier):
    max_n = 30 if tier == "quick" else 120
    t = draw(gen_tree.topology_case(min_n=1, max_n=max_n))
    n = len(t["parents"])
    ch = models.children(t["parents"])
    inner = [i for i in range(n) if len(ch[i]) > 0]
    k = draw(st.integers(0, 3))
    if k == 0 or not inner:
        start = draw(st.integers(0, n - 1))
    elif k == 1:
        start = 0
    else:  # an internal node, preferably one with a furcation below it
        start = inner[draw(st.integers(0, len(inner) - 1))]
    return {"parents": t["parents"], "shape": t["shape"], "permuted": t["permuted"],
            "start": start, "mode": draw(st.sampled_from(MODES + ["both"])),
            "entry": draw(st.sampled_from(ENTRIES)),
            "handle": draw(st.sampled_from(HANDLES)),
            # a first traversal of the same tree (object) is aborted by an exception raised in a callback after some calls;
            # the caller catches it and traverses again
            "aborted_first": draw(st.sampled_from([None, None, None, 1, 2, 5])),
            # what the `leave` callback does with the list it was handed, once it has read it ("all callbacks")
            "mutate": draw(st.sampled_from(["no", "no", "append", "clear", "sort-reverse"])),
            # what `enter` returns: a unique token, the depth below the start node (0 at the start node), or values
            # that are falsy without being None
            "values": draw(st.sampled_from(["token", "token", "depth", "falsy"])),
            # the same callback objects are first used on another tree (a decoy), then on this one
            "reuse": draw(st.integers(0, 3)) == 0,
            # Tree entry points: the tree object was traversed before, then one node was re-parented in place through a
            # node handle (attribute or item assignment), or a copy taken after the first traversal was re-parented;
            # the case's parent table is the table after the edit
            "edit": draw(st.sampled_from([None, None, None, "node.pid", "item", "copy-then-node.pid"])),
            "edit_sel": [draw(st.integers(0, 10 ** 6)), draw(st.integers(0, 10 ** 6))],
            # raw (id, parent id) tables handed to swc_utils.traverse may list their rows in any order
            "row_order": list(draw(st.permutations(list(range(n))))) if draw(st.integers(0, 2)) == 0 else None}


def _tree_of(parents):
    from swcgeom.core import Tree

    n = len(parents)
    return Tree(n, id=np.arange(n, dtype=np.int32), pid=np.array(parents, dtype=np.int32))


def _before_edit(parents, sel):
    """The table the tree had before one node was re-parented: (old table, node, its parent now) or None."""
    n = len(parents)
    movable = [i for i in range(n) if parents[i] != -1]
    if not movable:
        return None
    a = movable[sel[0] % len(movable)]
    below = models.descendants_or_self(parents, a)
    cands = [j for j in range(n) if j not in below and j != parents[a]]
    if not cands:
        return None
    old = list(parents)
    old[a] = cands[sel[1] % len(cands)]
    return old, a, parents[a]


def _handle(tree, i, how):
    n = len(tree)
    if how == "tree[i]":
        return tree[i]
    if how == "tree[i-n]":
        return tree[i - n]
    if how == "tree[i:i+1][0]":
        return tree[i:i + 1][0]
    if how == "iteration":
        for k, nd in enumerate(tree):
            if k == i:
                return nd
    return tree.node(i)


class _Abort(Exception):
    pass


def _run_traverse(parents, start, mode, entry, enter, leave, current=None, edit=None, edit_sel=None, decoy_cb=None, row_order=None,
                  handle="node(i)", aborted_first=None):
    from swcgeom.core.swc_utils import traverse

    kw = {}
    if mode in ("enter", "both"):
        kw["enter"] = enter
    if mode in ("leave", "both"):
        kw["leave"] = leave
    n = len(parents)
    if entry == "swc_utils":
        topo = (np.arange(n, dtype=np.int32), np.array(parents, dtype=np.int32))
        if row_order is not None:
            order = np.array(row_order, dtype=np.int64)
            topo = (topo[0][order], topo[1][order])
        return traverse(topo, root=start, **kw)
    tree = _tree_of(parents)
    prior = _before_edit(parents, edit_sel) if edit else None
    if prior is not None:
        old, a, b = prior
        tree = _tree_of(old)
        if decoy_cb:
            decoy_cb(lambda: tree.traverse(**kw) if entry == "tree" else tree.node(0).traverse(**kw))
        if edit == "copy-then-node.pid":
            tree = tree.copy()
            tree.node(a).pid = b
        elif edit == "item":
            tree.node(a)["pid"] = b
        else:
            tree.node(a).pid = b
    if current is not None:
        current[0] = tree
    if aborted_first:
        calls = [0]

        def boom(*a):
            calls[0] += 1
            if calls[0] >= aborted_first:
                raise _Abort()
            return None

        try:
            tree.traverse(**{k: boom for k in kw}) if entry == "tree" else tree.node(0).traverse(**{k: boom for k in kw})
        except _Abort:
            pass
    if entry == "tree":
        return tree.traverse(root=start, **kw)
    return _handle(tree, start, handle).traverse(**kw)


def run_structure(case, ctx):
    parents, start, mode, entry = case["parents"], case["start"], case["mode"], case["entry"]
    n = len(parents)
    ch = models.children(parents)
    sub = models.descendants_or_self(parents, start)
    ctx.cls("enter-returns:" + case.get("values", "token"))
    ctx.cls("entry:" + entry, "mode:" + mode, "shape:" + case["shape"], "leave-callback-mutates-its-argument:" + case.get("mutate", "no"))
    if case["permuted"]:
        ctx.cls("permuted")
    if start != 0:
        ctx.cls("start-not-root")
    has_furc = any(len(ch[i]) >= 2 for i in sub)
    ctx.nontrivial(n >= 5 and start != 0 and len(ch[start]) > 0 and mode == "both" and has_furc)

    clock = [0]
    entered = {}  # id -> (seq, received, token)
    left = {}  # id -> (seq, received list, token)
    order_err = []

    current = [None]  # the tree being traversed (Tree entry points)

    def nid(x):
        if entry == "swc_utils":
            return int(x)
        i = int(x.id)
        if int(x.idx) != i:
            order_err.append(f"node handle idx {x.idx} != id {i}")
        if current[0] is not None and x.attach is not current[0]:
            order_err.append(f"callback received a handle of node {i} that is not attached to the traversed tree")
        return i

    FALSY = [0, False, "", (), 0.0, b""]
    values = case.get("values", "token")
    live = [True]  # False while the callbacks run on the decoy tree

    def enter(x, pv):
        if not live[0]:
            return ("decoy", int(x) if entry == "swc_utils" else int(x.id))
        i = nid(x)
        clock[0] += 1
        if i in entered:
            order_err.append(f"enter called twice for node {i}")
        if values == "depth":
            tok = 0 if i == start else (pv + 1 if isinstance(pv, int) else -10 ** 6)
        elif values == "falsy":
            tok = FALSY[(i + clock[0]) % len(FALSY)]
        else:
            tok = ("E", i, clock[0])
        entered[i] = (clock[0], pv, tok)
        return tok

    def leave(x, cvs):
        if not live[0]:
            return ("decoy",)
        i = nid(x)
        clock[0] += 1
        if i in left:
            order_err.append(f"leave called twice for node {i}")
        tok = ("L", i, clock[0])
        left[i] = (clock[0], list(cvs), tok)
        how = case.get("mutate", "no")
        if how != "no" and isinstance(cvs, list):
            if how == "append":
                cvs.append(("junk", i))
            elif how == "clear":
                cvs.clear()
            else:
                cvs.reverse()
        return tok

    if case.get("reuse"):
        # the same callables on another tree first: nothing of that traversal may show in this one
        live[0] = False
        decoy = [-1] + [max(0, k - 2) for k in range(1, n + 3)]
        _run_traverse(decoy, 0, mode, entry, enter, leave)
        live[0] = True
        ctx.cls("callbacks-reused-from-another-tree")
    edited = [False]

    def decoy_run(fn):
        live[0] = False
        try:
            fn()
        finally:
            live[0] = True
        edited[0] = True

    ret = _run_traverse(parents, start, mode, entry, enter, leave, current, edit=case.get("edit") if entry != "swc_utils" else None,
                        edit_sel=case.get("edit_sel"), decoy_cb=decoy_run, row_order=case.get("row_order"),
                        handle=case.get("handle", "node(i)"), aborted_first=case.get("aborted_first"))
    if case.get("aborted_first") and entry != "swc_utils":
        ctx.cls("traversed-again-after-an-aborted-traversal")
    if entry == "node":
        ctx.cls("handle:" + case.get("handle", "node(i)"))
    if entry == "swc_utils" and case.get("row_order") is not None:
        ctx.cls("raw-table-with-rows-in-any-order")
    if edited[0]:
        ctx.cls("tree-re-parented-in-place-after-a-first-traversal", "edit:" + case["edit"])
    ctx.check(not order_err, "exactly-once", lambda: "; ".join(order_err[:3]))
    if mode in ("enter", "both"):
        ctx.check(set(entered) == sub, "enter/visits-exactly-the-subtree",
                  lambda: f"entered {sorted(entered)} but subtree of {start} is {sorted(sub)} (parents {parents})")
        for i, (seq, pv, _tok) in entered.items():
            if i == start:
                ctx.check(pv is None, "enter/start-receives-nothing", lambda: f"start node received {pv!r}")
            else:
                pseq, _, ptok = entered[parents[i]]
                ctx.check(pv is ptok or (pv == ptok and type(pv) is type(ptok)), "enter/receives-parents-value",
                          lambda: f"node {i} received {pv!r}, its parent {parents[i]} returned {ptok!r}")
                ctx.check(pseq < seq, "enter/after-parent", f"node {i} entered before its parent")
    if mode in ("leave", "both"):
        ctx.check(set(left) == sub, "leave/visits-exactly-the-subtree",
                  lambda: f"left {sorted(left)} but subtree of {start} is {sorted(sub)} (parents {parents})")
        for i, (seq, cvs, _tok) in left.items():
            want = sorted(left[c][2] for c in ch[i])
            try:
                got = sorted(cvs)
            except TypeError:
                got = None
            ctx.check(got == want, "leave/receives-childrens-values",
                      lambda: f"node {i} received {cvs!r}, its children returned {want!r}")
            for c in ch[i]:
                ctx.check(left[c][0] < seq, "leave/after-children", f"node {i} left before child {c}")
            if mode == "both":
                ctx.check(entered[i][0] < seq, "leave/after-own-enter", f"node {i} left before entered")
        ctx.check(ret == left[start][2], "returns-start-nodes-value",
                  lambda: f"returned {ret!r}, start node's leave returned {left[start][2]!r}")
    else:
        ctx.check(ret is None, "returns-none-without-leave", lambda: f"returned {ret!r}")


# ----------------------------------------------------------------------------- depth
def _deep_parents(n, shape):
    if shape == "chain":
        return [-1] + list(range(n - 1))
    if shape == "caterpillar":  # spine on even ids, one leaf per spine node
        out = [-1]
        for i in range(1, n):
            out.append(i - 1 if i % 2 == 1 else i - 2)
        return out
    if shape == "comb":  # long spine, then a star at the end
        m = n - 50
        return [-1] + list(range(m - 1)) + [m - 1] * 50
    if shape == "caterpillar-leaves-numbered-last":  # spine 0..m-1, the leaf of spine node i is m + i (the spine is listed first)
        m = n // 2
        return [-1] + list(range(m - 1)) + list(range(n - m))[: n - m]
    if shape in ("caterpillar-shuffled", "binary-ladder-shuffled"):
        # a deep caterpillar / a ladder whose every spine node also carries a two-node twig, under a seeded renumbering that
        # keeps the root at 0: at every spine node the continuation may be listed first, in the middle or last
        base = _deep_parents(n, "caterpillar")
        if shape == "binary-ladder-shuffled":
            base = [-1]
            for i in range(1, n):
                k = i % 3
                base.append(i - 3 if k == 0 and i >= 3 else (0 if k == 0 else i - k if k == 1 else i - 1))
        rs = np.random.RandomState(n)
        perm = [0] + [int(v) + 1 for v in rs.permutation(n - 1)]
        out = [None] * n
        for i, p in enumerate(base):
            out[perm[i]] = -1 if p == -1 else perm[p]
        return out
    raise ValueError(shape)


@st.composite
def deep_case(draw, tier):
    kind = draw(st.integers(0, 2))
    limit = kind == 0
    if limit:
        n = draw(st.integers(2500, 3500))
    elif kind == 1:
        n = draw(st.sampled_from([10_000, 12_345, 20_000] if tier == "quick" else [50_000, 100_000, 131_072]))
    else:
        # tables of exactly / just around 2^8 and 2^16 rows
        n = draw(st.sampled_from([256, 65_536, 256, 65_536, 255, 257, 65_535, 65_537]))
    shapes = ["chain", "caterpillar", "comb", "caterpillar-leaves-numbered-last", "caterpillar-shuffled", "binary-ladder-shuffled"]
    return {"n": n, "shape": draw(st.sampled_from(shapes if limit or n >= 1000 else shapes[:2] + shapes[4:])),
            "entry": draw(st.sampled_from(ENTRIES)), "limit": limit,
            "start": draw(st.sampled_from([0, 0, 1, 2]))}


def _frame_depth():
    d, f = 0, sys._getframe()
    while f is not None:
        d += 1
        f = f.f_back
    return d


def run_deep(case, ctx):
    n, shape, entry = case["n"], case["shape"], case["entry"]
    parents = _deep_parents(n, shape)
    start = case["start"]
    if shape == "caterpillar" and start == 1:
        start = 2
    if "shuffled" in shape or shape == "caterpillar-leaves-numbered-last":
        start = 0 if start != 1 else [i for i, p in enumerate(parents) if p == 0][0]
    sub_n = len(models.descendants_or_self(parents, start))
    ctx.cls("deep:" + shape, "entry:" + entry, "limited-recursion" if case["limit"] else f"n>={10 ** (len(str(n)) - 1)}")
    if n in (256, 65536):
        ctx.cls("rows=2^8-or-2^16")
    ctx.nontrivial(True)
    count = [0]

    def enter(x, pv):
        count[0] += 1
        return 1 if pv is None else pv + 1

    def leave(x, cvs):
        return 1 + sum(cvs)

    old = sys.getrecursionlimit()
    try:
        if case["limit"]:
            sys.setrecursionlimit(_frame_depth() + 80)
        try:
            total = _run_traverse(parents, start, "both", entry, enter, leave)
        except RecursionError as e:
            ctx.fail("depth/recursion-limit-hit", f"{shape} of {n} nodes via {entry}: {e}")
    finally:
        sys.setrecursionlimit(old)
    ctx.check(count[0] == sub_n, "depth/enter-count", f"{count[0]} enters for {sub_n} nodes")
    ctx.check(total == sub_n, "depth/leave-aggregate", f"leave aggregate {total} for {sub_n} nodes")


SUBCHECKS = [
    Sub("structure", structure_case, run_structure, quick=4000, thorough=60000, shards_quick=4,
        required={"entry:swc_utils": 50, "entry:tree": 50, "entry:node": 50, "mode:both": 100,
                  "permuted": 100, "start-not-root": 200, "shape:chain": 20, "shape:star": 20,
                  "leave-callback-mutates-its-argument:append": 100, "leave-callback-mutates-its-argument:clear": 100,
                  "enter-returns:depth": 100, "enter-returns:falsy": 100, "callbacks-reused-from-another-tree": 100,
                  "tree-re-parented-in-place-after-a-first-traversal": 300, "raw-table-with-rows-in-any-order": 150, "edit:item": 60, "edit:copy-then-node.pid": 60,
                  "handle:tree[i-n]": 70, "handle:tree[i:i+1][0]": 70, "handle:iteration": 70,
                  "traversed-again-after-an-aborted-traversal": 300}),
    Sub("deep", deep_case, run_deep, quick=64, thorough=96, shards_quick=4,
        required={"limited-recursion": 8, "rows=2^8-or-2^16": 2, "deep:chain": 1, "deep:caterpillar": 1, "deep:caterpillar-leaves-numbered-last": 1,
                  "deep:caterpillar-shuffled": 1}),
]
