"""C16 — Resampling and smoothing keep the neuron's shape."""
import math

import numpy as np
from hypothesis import strategies as st

from vlib import gen_tree, models
from vlib.harness import Sub

PROPERTY = "C16"
RULE = (
    "(tree) trees of any branching and root degree, root typed soma or not, on distinct lattice points; pass-through "
    "nodes are collapsed onto their parent with probability 1/5 (zero-length segments) and one whole branch per tree "
    "may be collapsed onto its start (zero-length branch); spacing d log-uniform from 0.05x to 20x the mean branch "
    "length. Oracle for IsometricResampler(d): well-formed sorted tree; walking from the root, every original "
    "critical node (root, furcation, tip) is found again with the same x, y, z, r, type and the same parent relation "
    "between critical nodes; each branch has ceil(L/d) steps (+-1 when L/d is within 1e-6 of an integer), its nodes "
    "lie on the original polyline at arc length j*L/m (tolerance 1e-4*(1+L)), radii are the linear interpolation "
    "in arc length (any value between the radii of coincident nodes is accepted at a zero-length segment); total "
    "length does not grow. (branch) BranchLinearResampler(n) / BranchIsometricResampler(d) on branches taken from "
    "trees and built by Branch.from_xyzr: node count, end points, equal arc steps <= d, interpolated radii. "
    "(smooth) BranchConvSmoother(k) / TreeSmoother(k), k in 1..9: node count, ids, parents, radii, types, extra "
    "columns and end points / critical nodes unchanged, smoothed points inside the bounding box of the branch, input "
    "untouched. Non-trivial: a branch with L > 2d and at least one bend, in a tree with >= 2 branches."
)
ASSUMPTIONS = [
    "adjust_last_gap=False (steps of exactly the spacing, a shorter last step) is held to every clause but 'equal steps': "
    "key nodes and end points kept, nodes on the polyline at arc length j*d, steps <= d, radii interpolated, length not "
    "growing; there a branch length within 1e-6 of a whole number of steps is not compared",
    "arc length is measured on x, y, z only; at a zero-length segment the radius is discontinuous and any value "
    "between the coincident nodes' radii is accepted",
    "the ends of the branches leaving one node are distinguishable: distinct positions, or the same position with "
    "different radii (identical twin tips are accepted in either pairing); types and extra columns of interpolated "
    "nodes are unspecified",
]


# ----------------------------------------------------------------------------- generators
@st.composite
def tree_strategy(draw, tier, min_n=2):
    max_n = 18 if tier == "quick" else 60
    soma = draw(st.integers(0, 2)) != 0
    t = draw(gen_tree.tree_case(min_n=min_n, max_n=max_n, regimes=["lattice"], distinct_points=True,
                                soma_root=soma, permute=None))
    for c in "xyz":  # keep within +-32 so spacings are commensurate with branch lengths
        t[c] = [((v * 8) % 512 - 256) / 8.0 for v in t[c]]
    n = len(t["parents"])
    seen = set()
    for i in range(n):
        k = 0
        while (t["x"][i], t["y"][i], t["z"][i]) in seen:
            k += 1
            t["x"][i] = ((t["x"][i] * 8 + 256 + k) % 512 - 256) / 8.0
        seen.add((t["x"][i], t["y"][i], t["z"][i]))
    ch = models.children(t["parents"])
    order = models.topo_order(t["parents"])
    # zero-length segments: a pass-through node sits on its parent
    for i in order:
        p = t["parents"][i]
        if p != -1 and len(ch[i]) == 1 and draw(st.integers(0, 4)) == 0:
            for c in "xyz":
                t[c][i] = t[c][p]
    # one zero-length whole branch
    if draw(st.integers(0, 7)) == 0:
        brs = models.branches(t["parents"])
        b = brs[draw(st.integers(0, len(brs) - 1))]
        for i in b[1:]:
            for c in "xyz":
                t[c][i] = t[c][b[0]]
        t["zero_branch"] = list(b)
    # two tips hanging from the same node end at the same place with the same radius and type (a doubled tracing):
    # which of the two resampled branches gets which of the two identical end nodes cannot matter
    if draw(st.integers(0, 5)) == 0 and "zero_branch" not in t:
        brs = models.branches(t["parents"])
        by_start = {}
        for b in brs:
            if not ch[b[-1]] and len(b) >= 2:
                by_start.setdefault(b[0], []).append(b)
        multi = [v for k, v in sorted(by_start.items()) if len(v) >= 2]
        if multi:
            v = multi[draw(st.integers(0, len(multi) - 1))]
            a, b = v[0][-1], v[1][-1]
            for c in ("x", "y", "z", "r", "type"):
                t[c][b] = t[c][a]
            t["twin_tips"] = [a, b]
    # two branches leaving one node end at the same place, on key nodes that differ (another radius; a tip and a
    # furcation, or furcations with different subtrees): a multi-way split traced as a cascade, a doubled branch point
    if draw(st.integers(0, 5)) == 0 and "zero_branch" not in t and "twin_tips" not in t:
        brs = models.branches(t["parents"])
        by_start = {}
        for b in brs:
            by_start.setdefault(b[0], []).append(b)
        multi = [v for k, v in sorted(by_start.items()) if len(v) >= 2]
        if multi:
            v = multi[draw(st.integers(0, len(multi) - 1))]
            a, b = v[0][-1], v[1][-1]
            for c in "xyz":
                t[c][b] = t[c][a]
            if t["r"][b] == t["r"][a]:
                t["r"][b] = t["r"][a] + 0.5
            t["coincident_sibling_ends"] = [a, b]
    return t


@st.composite
def resample_strategy(draw, tier):
    t = draw(tree_strategy(tier))
    f = math.exp(draw(st.floats(min_value=math.log(0.05), max_value=math.log(20.0))))
    special = draw(st.integers(0, 9))
    return {"tree": t, "f": f, "special": special,
            "reuse": draw(st.sampled_from(["no", "no", "same-tree-again", "another-tree-first", "moved-by-a-transform-after-a-first-resampling",
                                           "edited-in-place-after-a-first-resampling"])),
            "edit_sel": draw(st.integers(0, 10 ** 6)),
            # the neuron in stack / atlas coordinates: moved by multiples of 4096 (exact for the 1/8 lattice in float32)
            "far": draw(st.sampled_from([None, None, None, [8192.0, -16384.0, 4096.0], [32768.0, 12288.0, -28672.0], [-20480.0, 0.0, 0.0]])),
            # the spacing handed over as a Python float, an int / numpy integer (whole-number spacings), or a numpy float
            # the neuron handed over as a branch tree (an instance of a Tree subclass made by the library): it is resampled as
            # the tree it is (straight segments between its key nodes)
            "as_branch_tree": draw(st.integers(0, 5)) == 0,
            "d_form": draw(st.sampled_from(["float", "float", "int", "np.int64", "np.float32", "np.float64"])),
            # the other spacing mode: steps of exactly the spacing and a shorter last step (no clause on equal steps there)
            "adjust_last_gap": draw(st.integers(0, 4)) != 0}


def _polyline(P):
    seg = np.linalg.norm(np.diff(P, axis=0), axis=1) if len(P) > 1 else np.zeros(0)
    return seg, np.concatenate([[0.0], np.cumsum(seg)])


def _point_at(P, cum, s):
    return np.array([np.interp(s, cum, P[:, k]) for k in range(P.shape[1])])


def _radius_ok(got, rr, cum, s, tol_s):
    cands = [float(np.interp(s, cum, rr))]
    for q in range(len(cum)):
        if abs(cum[q] - s) <= tol_s:
            cands.append(float(rr[q]))
    lo, hi = min(cands), max(cands)
    return lo - 1e-4 * (1 + abs(lo)) <= got <= hi + 1e-4 * (1 + abs(hi)), (lo, hi)


def _spacing(t, f, special):
    P = models.xyz64(t)
    brs = models.branches(t["parents"])
    lens = [models.polyline_length(P[list(b)]) for b in brs]
    mean = float(np.mean([v for v in lens if v > 0] or [1.0]))
    d = f * mean
    if special == 0 and any(v > 0 for v in lens):  # L / d an exact integer for one branch
        L = max(lens)
        d = L / max(1, round(L / d))
    return max(d, 1e-3), lens


def _check_resampled(ctx, t, y, d, label, adjust=True, mag=0.0):
    """y: resampled Tree.  Walk both trees from the root, branch by branch.  adjust=False: the mode whose steps are
    exactly the spacing with a shorter last step (nodes at arc length j*d, the end point last)."""
    parents = t["parents"]
    P = models.xyz64(t)
    r32 = np.array(t["r"], dtype=np.float32)
    yp = [int(v) for v in y.pid()]
    reason = models.wellformed(y.id(), yp, require_sorted=True)
    ctx.check(reason is None, f"{label}/wellformed-sorted", reason)
    yx = np.stack([y.x(), y.y(), y.z()], axis=1).astype(np.float64)
    yr, yt = y.r(), y.type()
    x32 = np.stack([np.array(t[c], dtype=np.float32) for c in "xyz"], axis=1)

    def same_node(j, i):
        return bool(np.array_equal(np.stack([y.x()[j], y.y()[j], y.z()[j]]), x32[i])) and yr[j] == r32[i] and int(yt[j]) == t["type"][i]

    refb, ybs = {}, {}
    for b in models.branches(parents):
        refb.setdefault(b[0], []).append(b)
    for b in models.branches(yp):
        ybs.setdefault(b[0], []).append(b)
    ctx.check(same_node(0, 0), f"{label}/root-kept", lambda: f"root became {yx[0].tolist()} r={yr[0]} type={yt[0]}")
    stack = [(0, 0)]
    n_long_bent = 0
    while stack:
        o, q = stack.pop()
        ob, yb = refb.get(o, []), ybs.get(q, [])
        ctx.check(len(ob) == len(yb), f"{label}/critical-nodes-keep-their-connectivity",
                  lambda: f"original node {o} starts {len(ob)} branches, its image {q} starts {len(yb)}; parents {parents} -> {yp}")
        # which resampled branch is the image of which original one?  The end nodes decide, except for twin tips
        # (identical end nodes): there every assignment under which all clauses hold is as good as any other, so the
        # clauses are evaluated per (branch, candidate) pair and a perfect matching is searched for.
        def judge(B, Y):
            """None if the resampled branch Y is a correct image of the original branch B, else (clause, message)."""
            e = B[-1]
            if not same_node(Y[-1], e):
                return (f"{label}/critical-nodes-kept",
                        f"branch {B}: no resampled branch from node {q} ends at the original end point {x32[e].tolist()} "
                        f"r={r32[e]} type={t['type'][e]}; ends found: {[(yx[Z[-1]].tolist(), float(yr[Z[-1]])) for Z in yb]}")
            Pb = P[list(B)]
            seg, cum = _polyline(Pb)
            L = float(cum[-1])
            m = len(Y) - 1
            want = max(int(math.ceil(L / d)), 1) if L > 0 else 1
            near = L > 0 and abs(L / d - round(L / d)) < 1e-6 * max(1.0, L / d)
            if not (m == want or (near and abs(m - want) <= 1)):
                return (f"{label}/step-count", f"branch {B}: length {L}, spacing {d}: {m} steps, expected {want}")
            if not (L / m <= d * (1 + 1e-6) or L == 0):
                return (f"{label}/steps-no-longer-than-spacing", f"{L / m} > {d}")
            rr = r32[list(B)].astype(np.float64)
            tol = 1e-4 * (1 + L) + 1e-5 + 1e-6 * mag  # float32 storage of coordinates of magnitude `mag`
            for j, node in enumerate(Y):
                sarc = L * j / m if adjust else (L if j == m else min(j * d, L))
                want_p = _point_at(Pb, cum, sarc)
                if float(np.linalg.norm(yx[node] - want_p)) > tol:
                    return (f"{label}/nodes-on-the-polyline-at-equal-arc-steps",
                            f"branch {B} (L={L}, d={d}) node {j}/{m}: {yx[node].tolist()} vs {want_p.tolist()}")
                ok, rng = _radius_ok(float(yr[node]), rr, cum, sarc, 1e-6 * (1 + L))
                if not ok:
                    return (f"{label}/radius-linear-in-arc-length", f"branch {B} node {j}/{m}: r={float(yr[node])}, expected within {rng}")
            return None

        verdicts = [[judge(B, Y) for Y in yb] for B in ob]
        order_b = sorted(range(len(ob)), key=lambda i: sum(v is None for v in verdicts[i]))
        assign = {}

        def match(pos, taken):
            if pos == len(order_b):
                return True
            i = order_b[pos]
            for k in range(len(yb)):
                if k not in taken and verdicts[i][k] is None:
                    assign[i] = k
                    if match(pos + 1, taken | {k}):
                        return True
            return False

        if not match(0, frozenset()):
            # report the clause of the most plausible pairing of the first branch that cannot be placed
            i = order_b[0]
            ends = [k for k in range(len(yb)) if same_node(yb[k][-1], ob[i][-1])] or list(range(len(yb)))
            clause, msg = verdicts[i][ends[0]]
            ctx.fail(clause.split("/", 1)[1] if clause.startswith(ctx.sub + "/") else clause, msg)
        for i, B in enumerate(ob):
            Y = yb[assign[i]]
            Pb = P[list(B)]
            L = float(_polyline(Pb)[1][-1])
            near = L > 0 and abs(L / d - round(L / d)) < 1e-6 * max(1.0, L / d)
            if near:
                ctx.ambiguous("L/d-within-1e-6-of-an-integer")
            if L > 2 * d and len(B) >= 3:
                n_long_bent += 1
            stack.append((B[-1], Y[-1]))
    ylen = float(np.sum(np.linalg.norm(yx[1:] - yx[[p for p in yp[1:]]], axis=1))) if len(yp) > 1 else 0.0
    olen = float(models.seg_lengths(t).sum())
    ctx.check(ylen <= olen * (1 + 1e-5) + 1e-5 + 1e-6 * mag * len(yp), f"{label}/total-length-never-grows", lambda: f"{ylen} > {olen}")
    return n_long_bent


def run_resample(case, ctx):
    from swcgeom.transforms import IsometricResampler

    t = case["tree"]
    parents = t["parents"]
    d, lens = _spacing(t, case["f"], case["special"])
    mag = 0.0
    if case.get("far"):
        t = dict(t, **{c: [v + o for v in t[c]] for c, o in zip("xyz", case["far"])})
        mag = max(abs(o) for o in case["far"]) + 64.0
        ctx.cls("far-from-the-origin")
    form = case.get("d_form", "float")
    if form in ("int", "np.int64") and d >= 1.0:
        d = float(int(d))  # a whole number of units, handed over as an integer
        d_arg = int(d) if form == "int" else np.int64(int(d))
        ctx.cls("spacing-given-as-an-integer")
    elif form == "np.float32":
        d = float(np.float32(d))
        d_arg = np.float32(d)
    elif form == "np.float64":
        d_arg = np.float64(d)
    else:
        d_arg = d
    tree = gen_tree.build_tree(t)
    if case.get("as_branch_tree") and "zero_branch" not in t and "twin_tips" not in t and "coincident_sibling_ends" not in t:
        from swcgeom.transforms import ToBranchTree

        tree = ToBranchTree()(tree)
        t = dict(t, parents=[int(v) for v in tree.pid()], type=[int(v) for v in tree.type()])
        for col in ("x", "y", "z", "r", "w"):
            t[col] = [float(v) for v in tree.get_ndata(col)]
        t["tag"] = [int(v) for v in tree.get_ndata("tag")]
        parents = t["parents"]
        d, lens = _spacing(t, case["f"], case["special"])
        d = float(int(d)) if form in ("int", "np.int64") and d >= 1.0 else float(np.float32(d)) if form == "np.float32" else d
        d_arg = {"int": int, "np.int64": lambda v: np.int64(int(v)), "np.float32": np.float32, "np.float64": np.float64}.get(
            form if not (form in ("int", "np.int64") and d < 1.0) else "float", float)(d)
        ctx.cls("input-is-a-branch-tree")
    before = {k: v.copy() for k, v in tree.ndata.items()}
    ch = models.children(parents)
    P = models.xyz64(t)
    zero_seg = any(parents[i] != -1 and np.array_equal(P[i], P[parents[i]]) for i in range(len(parents)))
    ctx.cls("soma-root" if t["type"][0] == 1 else "non-soma-root", f"rootdeg:{min(len(ch[0]), 3)}",
            "zero-length-segment" if zero_seg else "no-zero-length-segment",
            "zero-length-branch" if "zero_branch" in t else "no-zero-length-branch",
            "d<meanL" if case["f"] < 1 else "d>=meanL")
    if "twin_tips" in t:
        ctx.cls("twin-tips")
    if "coincident_sibling_ends" in t:
        ctx.cls("sibling-key-nodes-at-the-same-place")
    if any(p > i for i, p in enumerate(parents)):
        ctx.cls("numbering-not-parent-before-child")
    adjust = bool(case.get("adjust_last_gap", True))
    rs = IsometricResampler(d_arg) if adjust else IsometricResampler(d_arg, adjust_last_gap=False)
    if not adjust:
        ctx.cls("mode:last-step-shorter")
        if any(v > 0 and abs(v / d - round(v / d)) < 1e-6 * max(1.0, v / d) for v in lens):
            # a branch length within rounding of a whole number of steps: the node count of this mode is not determined
            ctx.ambiguous("last-step-shorter-mode:L/d-within-1e-6-of-an-integer")
            return
    how = case.get("reuse", "no")
    if how == "another-tree-first":
        ctx.lib("IsometricResampler", rs, gen_tree.build_tree(dict(t, x=[v + 1.0 for v in t["y"]], y=list(t["x"]))))
        ctx.cls("resampler-object-reused")
    elif how == "same-tree-again":
        ctx.lib("IsometricResampler", rs, tree)  # the second result must again be made from the input, not from the first
        ctx.cls("resampler-object-reused")
    elif how == "moved-by-a-transform-after-a-first-resampling":
        # the tree was resampled once; a translated copy of it (made by the library) is resampled next: the result is
        # made from the translated neuron
        from swcgeom.transforms import Translate

        ctx.lib("IsometricResampler", rs, tree)
        sh = [0.5, -1.25, 2.0]
        tree = ctx.lib("Translate", Translate(*sh), tree)
        t = dict(t, x=[v + sh[0] for v in t["x"]], y=[v + sh[1] for v in t["y"]], z=[v + sh[2] for v in t["z"]])
        before = {k: v.copy() for k, v in tree.ndata.items()}
        ctx.cls("resampled-again-after-the-neuron-changed")
    elif how == "edited-in-place-after-a-first-resampling":
        # the tree was resampled once, then one of its tips was moved through a node handle and its radius changed
        ctx.lib("IsometricResampler", rs, tree)
        tips = [i for i in range(len(parents)) if not ch[i] and parents[i] != -1]
        if tips:
            i = tips[case.get("edit_sel", 0) % len(tips)]
            nd = tree.node(i)
            nd.x = float(np.float32(t["x"][i] + 0.0625))  # off the 1/8 lattice: still distinct from every other node
            nd.r = float(np.float32(t["r"][i] + 0.25))
            t = dict(t, x=list(t["x"]), r=list(t["r"]))
            t["x"][i] = t["x"][i] + 0.0625
            t["r"][i] = t["r"][i] + 0.25
            before = {k: v.copy() for k, v in tree.ndata.items()}
            ctx.cls("resampled-again-after-the-neuron-changed")
    y = ctx.lib("IsometricResampler", rs, tree)
    for k, v in before.items():
        ctx.check(np.array_equal(tree.ndata[k], v), "tree/input-unchanged", f"column {k}")
    nlb = _check_resampled(ctx, t, y, d, "tree", adjust, mag)
    ctx.nontrivial(nlb >= 1 and len(lens) >= 2)


# ----------------------------------------------------------------------------- single branches
@st.composite
def branch_strategy(draw, tier):
    k = draw(st.integers(2, 12 if tier == "quick" else 40))
    co = st.integers(-256, 256).map(lambda v: v / 8.0)
    pts = []
    for i in range(k):
        if i > 0 and draw(st.integers(0, 5)) == 0:
            pts.append(list(pts[-1][:3]) + [draw(st.integers(1, 80)) / 16.0])  # coincident with the previous point
        else:
            pts.append([draw(co), draw(co), draw(co), draw(st.integers(1, 80)) / 16.0])
    if draw(st.integers(0, 15)) == 0:  # fully degenerate branch
        pts = [list(pts[0][:3]) + [p[3]] for p in pts]
    return {"xyzr": pts, "n": draw(st.integers(2, 50)), "f": math.exp(draw(st.floats(min_value=math.log(0.05), max_value=math.log(5.0)))),
            "via": draw(st.sampled_from(["from_xyzr", "tree"]))}


def _make_branch(case):
    from swcgeom.core import Branch, Tree

    xyzr = np.array(case["xyzr"], dtype=np.float32)
    if case["via"] == "from_xyzr":
        return Branch.from_xyzr(xyzr), xyzr
    k = len(xyzr)
    # a branch view inside a larger tree: root -> (this chain), root -> extra tip
    n = k + 1
    pid = np.array([-1] + list(range(0, k - 1)) + [0], dtype=np.int32)
    tr = Tree(n, id=np.arange(n, dtype=np.int32), pid=pid, type=np.array([1] + [3] * (n - 1), dtype=np.int32),
              x=np.append(xyzr[:, 0], xyzr[0, 0] + 50), y=np.append(xyzr[:, 1], 0).astype(np.float32),
              z=np.append(xyzr[:, 2], 0).astype(np.float32), r=np.append(xyzr[:, 3], 1).astype(np.float32))
    return Tree.Branch(tr, np.arange(k, dtype=np.int32)), xyzr


def run_branch(case, ctx):
    from swcgeom.transforms import BranchLinearResampler
    from swcgeom.transforms.branch import BranchIsometricResampler

    br, xyzr = _make_branch(case)
    P = xyzr[:, :3].astype(np.float64)
    rr = xyzr[:, 3].astype(np.float64)
    seg, cum = _polyline(P)
    L = float(cum[-1])
    bends = len(P) >= 3
    ctx.cls("via:" + case["via"], "L=0" if L == 0 else "L>0", "has-zero-length-segment" if np.any(seg == 0) else "no-zero-length-segment")
    tol = 1e-4 * (1 + L) + 1e-5
    snapshot = br.xyzr().copy()

    def check(out, m_expected, label, d=None, adjust=True):
        o = np.asarray(out.xyzr(), dtype=np.float64)
        ctx.check(len(o) == m_expected[0] or len(o) in m_expected, f"{label}/node-count", lambda: f"{len(o)} nodes, expected {m_expected}")
        m = len(o) - 1
        ctx.check(float(np.linalg.norm(o[0, :3] - P[0])) <= tol and float(np.linalg.norm(o[-1, :3] - P[-1])) <= tol,
                  f"{label}/end-points-kept", lambda: f"{o[0, :3].tolist()} .. {o[-1, :3].tolist()} vs {P[0].tolist()} .. {P[-1].tolist()}")
        for j in range(len(o)):
            s = (L * j / m if m > 0 else 0.0) if adjust else (L if j == m else min(j * d, L))
            want_p = _point_at(P, cum, s)
            ctx.check(float(np.linalg.norm(o[j, :3] - want_p)) <= tol, f"{label}/equal-arc-steps-on-the-polyline",
                      lambda: f"node {j}/{m}: {o[j, :3].tolist()} vs {want_p.tolist()} (L={L})")
            ok, rng = _radius_ok(float(o[j, 3]), rr, cum, s, 1e-6 * (1 + L))
            ctx.check(ok, f"{label}/radius-linear-in-arc-length", lambda: f"node {j}/{m}: r={o[j, 3]}, expected within {rng}")
        if d is not None and m > 0:
            ctx.check(L / m <= d * (1 + 1e-6), f"{label}/steps-no-longer-than-spacing", f"{L / m} > {d}")
        ctx.check(np.array_equal(br.xyzr(), snapshot), f"{label}/input-unchanged", "")

    n = case["n"]
    rl = BranchLinearResampler(n)
    out = ctx.lib("BranchLinearResampler", lambda: rl(br))
    check(out, [n], "linear")
    # the same resampler object goes on to another branch: the result already handed out is not touched by that
    from swcgeom.core import Branch

    kept = np.asarray(out.xyzr()).copy()
    other = Branch.from_xyzr((xyzr[::-1] + np.float32(1.5)).astype(np.float32))
    ctx.lib("BranchLinearResampler", lambda: rl(other))
    ctx.check(np.array_equal(np.asarray(out.xyzr()), kept), "linear/earlier-result-unchanged-by-a-later-call", "")
    d = max(case["f"] * (L / max(len(P) - 1, 1) if L > 0 else 1.0), 1e-3)
    want = (max(int(math.ceil(L / d)), 1) if L > 0 else 0) + 1
    near = L > 0 and abs(L / d - round(L / d)) < 1e-6 * max(1.0, L / d)
    ri = BranchIsometricResampler(d)
    out = ctx.lib("BranchIsometricResampler", lambda: ri(br))
    check(out, [want] if not near else [want, want - 1, want + 1], "isometric", d)
    kept = np.asarray(out.xyzr()).copy()
    ctx.lib("BranchIsometricResampler", lambda: ri(other))
    ctx.check(np.array_equal(np.asarray(out.xyzr()), kept), "isometric/earlier-result-unchanged-by-a-later-call", "")
    if not near and L > 0:
        out = ctx.lib("BranchIsometricResampler[adjust_last_gap=False]", lambda: BranchIsometricResampler(d, adjust_last_gap=False)(br))
        check(out, [want], "isometric-last-step-shorter", d, adjust=False)
    ctx.nontrivial(L > 2 * d and bends)


# ----------------------------------------------------------------------------- smoothing
@st.composite
def smooth_strategy(draw, tier):
    return {"tree": draw(tree_strategy(tier)), "k": draw(st.integers(1, 9)), "which": draw(st.sampled_from(["tree", "branch"])),
            "sel": draw(st.integers(0, 1000))}


def run_smooth(case, ctx):
    from swcgeom.transforms import BranchConvSmoother, TreeSmoother

    t, k = case["tree"], case["k"]
    parents = t["parents"]
    n = len(parents)
    tree = gen_tree.build_tree(t)
    before = {c: v.copy() for c, v in tree.ndata.items()}
    ch = models.children(parents)
    crit = [i for i in range(n) if parents[i] == -1 or len(ch[i]) != 1]
    brs = models.branches(parents)
    long_br = any(len(b) >= 4 for b in brs)
    ctx.cls("smooth:" + case["which"], f"window:{k}", "has-branch>=4-nodes" if long_br else "short-branches")
    ctx.nontrivial(long_br and k >= 2 and len(brs) >= 2)
    P = models.xyz64(t)
    if case["which"] == "tree":
        out = ctx.lib("TreeSmoother", lambda: TreeSmoother(k)(tree))
        for c, v in before.items():
            ctx.check(np.array_equal(tree.ndata[c], v), "tree_smoother/input-unchanged", f"column {c}")
        ctx.check(len(out) == n, "tree_smoother/node-count", f"{len(out)} vs {n}")
        for c in ("id", "pid", "type", "r", "tag", "w"):
            ctx.check(np.array_equal(out.ndata[c], before[c]), "tree_smoother/ids-parents-radii-types-unchanged", f"column {c}")
        ox = np.stack([out.x(), out.y(), out.z()], axis=1).astype(np.float64)
        for i in crit:
            ctx.check(np.array_equal(ox[i], P[i]), "tree_smoother/critical-nodes-unchanged",
                      lambda: f"node {i}: {ox[i].tolist()} vs {P[i].tolist()}")
        for b in brs:
            lo, hi = P[list(b)].min(axis=0) - 1e-4, P[list(b)].max(axis=0) + 1e-4
            for i in b[1:-1]:
                ctx.check(bool(np.all(ox[i] >= lo) and np.all(ox[i] <= hi)), "tree_smoother/average-stays-inside-the-branch-box",
                          lambda: f"node {i}: {ox[i].tolist()} outside [{lo.tolist()}, {hi.tolist()}]")
        ctx.check(not any(np.shares_memory(out.ndata[c], tree.ndata[c]) for c in before), "tree_smoother/no-shared-storage", "")
        return
    lib_brs = ctx.lib("tree.get_branches", tree.get_branches)
    br = lib_brs[case["sel"] % len(lib_brs)]
    ids = [int(v) for v in br.origin_id()]
    out = ctx.lib("BranchConvSmoother", lambda: BranchConvSmoother(k)(br))
    for c, v in before.items():
        ctx.check(np.array_equal(tree.ndata[c], v), "branch_smoother/input-unchanged", f"column {c}")
    o = np.asarray(out.xyzr(), dtype=np.float64)
    ctx.check(len(o) == len(ids), "branch_smoother/node-count", f"{len(o)} vs {len(ids)}")
    ctx.check(np.array_equal(o[0, :3], P[ids[0]]) and np.array_equal(o[-1, :3], P[ids[-1]]), "branch_smoother/end-points-unchanged",
              lambda: f"{o[0].tolist()} .. {o[-1].tolist()}")
    ctx.check(np.array_equal(o[:, 3], np.array(t["r"], dtype=np.float32)[ids].astype(np.float64)), "branch_smoother/radii-unchanged", "")
    lo, hi = P[ids].min(axis=0) - 1e-4, P[ids].max(axis=0) + 1e-4
    ctx.check(bool(np.all(o[:, :3] >= lo) and np.all(o[:, :3] <= hi)), "branch_smoother/average-stays-inside-the-branch-box", "")
    if k == 1:
        ctx.check(float(np.abs(o[:, :3] - P[ids]).max()) <= 1e-4, "branch_smoother/window-1-is-identity", "")


SUBCHECKS = [
    Sub("tree", resample_strategy, run_resample, quick=2400, thorough=24000, shards_quick=4,
        required={"non-soma-root": 100, "soma-root": 100, "rootdeg:1": 50, "rootdeg:3": 30, "zero-length-segment": 100,
                  "zero-length-branch": 30, "d<meanL": 300, "d>=meanL": 300, "twin-tips": 40,
                  "numbering-not-parent-before-child": 200, "resampler-object-reused": 300,
                  "sibling-key-nodes-at-the-same-place": 78, "resampled-again-after-the-neuron-changed": 300,
                  "mode:last-step-shorter": 198, "far-from-the-origin": 400, "spacing-given-as-an-integer": 100, "input-is-a-branch-tree": 112}),
    Sub("branch", branch_strategy, run_branch, quick=2400, thorough=24000, shards_quick=2,
        required={"via:tree": 200, "via:from_xyzr": 200, "L=0": 10, "has-zero-length-segment": 100}),
    Sub("smooth", smooth_strategy, run_smooth, quick=1500, thorough=12000, shards_quick=2,
        required={"smooth:tree": 150, "smooth:branch": 150, "has-branch>=4-nodes": 100}),
]
