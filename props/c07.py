"""C07 — Re-rooting and concatenation preserve structure and geometry."""
import numpy as np
from hypothesis import strategies as st

from vlib import gen_tree, models
from vlib.harness import Sub

PROPERTY = "C07"
RULE = (
    "One or two tagged trees on the dyadic lattice (multiples of 1/8, |v| <= 64: float32 translation is "
    "exact), with disjoint tag ranges and differing extra-column sets; new root / junction nodes "
    "anywhere; sort on/off; translate on/off (for translate=False the junction nodes are either made "
    "exactly coincident or are distinct lattice points, never near EPS). Oracle: tag-based comparison of "
    "node set, every column, undirected edge set, directed parents (tree 2 re-rooted at its junction), "
    "root-type exchange, exact translation vector, merge of coincident junctions, well-formed sorted "
    "result. Non-trivial re-rooting: n >= 4, new root not the old root and not adjacent to it. "
    "Non-trivial concatenation: both trees >= 3 nodes, junction 2 is not tree 2's root, junction 1 is "
    "not tree 1's root."
)
ASSUMPTIONS = [
    "cat_tree keeps the columns of the first tree: columns the second lacks are zero-filled, columns only the second has are dropped (as its source documents)",
]


@st.composite
def redirect_case(draw, tier):
    max_n = 25 if tier == "quick" else 120
    t = draw(gen_tree.tree_case(min_n=1, max_n=max_n, regimes=["lattice", "coincident"]))
    n = len(t["parents"])
    return {"tree": t, "new_root": draw(st.integers(0, n - 1)), "sort": draw(st.booleans()),
            "inspect_first": draw(st.integers(0, 2)) == 0,
            # a further per-node measurement (fractions) under a name the extended SWC format also knows, or any other
            "named_extra": draw(st.sampled_from([None, None] + gen_tree.ESWC_NAMES[:5] + ["score"])),
            # re-root the result once more (the first result, taken with sort=False, is a tree whose root is not node 0)
            "then": draw(st.one_of(st.none(), st.none(), st.tuples(st.integers(0, n - 1), st.booleans()).map(list)))}


def _look_around(tree, ctx):
    """Read-only questions a session asks before it restructures a tree (none of them may change what follows)."""
    for nd in tree:
        nd.children()
        nd.is_tip()
    tree.get_branches()
    tree.get_paths()
    tree.get_tips()
    tree.length()
    tree.xyz()
    tree.xyzr()
    if len(tree) > 1:
        tree[len(tree) - 1].branch()
    ctx.cls("trees-inspected-before-the-operation")


def _undirected(parents, label):
    return {frozenset((label[i], label[p])) for i, p in enumerate(parents) if p != -1}


def run_redirect(case, ctx):
    t, r, sort = case["tree"], case["new_root"], case["sort"]
    parents = t["parents"]
    n = len(parents)
    more = None
    if case.get("named_extra"):
        t = dict(t, named=[float(np.float32(v + 0.375)) for v in t["w"]], named_col=case["named_extra"])
        more = {case["named_extra"]: np.array(t["named"], dtype=np.float32)}
        ctx.cls("extra-column-under-an-eswc-name" if case["named_extra"] in gen_tree.ESWC_NAMES else "extra-column-under-another-name")
    tree = gen_tree.build_tree(t, more=more)
    if case.get("inspect_first"):
        _look_around(tree, ctx)
    ctx.cls("sort" if sort else "nosort", *gen_tree.shape_classes(t))
    if r == 0:
        ctx.cls("new-root-is-old-root")
    ctx.nontrivial(n >= 4 and r != 0 and parents[r] != 0)
    if case.get("then") and n >= 2:
        # first hop with sort=False (rows stay in place, the root moves away from node 0), judged like any other call;
        # its result is the input of the second hop
        out1 = _check_redirect(ctx, t, tree, r, False)
        t1 = dict(t, parents=[int(v) for v in out1.pid()], type=[int(v) for v in out1.type()])
        r2, sort2 = case["then"]
        ctx.cls("re-rooted-again-from-a-root-that-is-not-node-0" if r != 0 else "re-rooted-again")
        _check_redirect(ctx, t1, out1, r2 % n, bool(sort2))
        return
    _check_redirect(ctx, t, tree, r, sort)


def _check_redirect(ctx, t, tree, r, sort):
    from swcgeom.core import redirect_tree

    parents = t["parents"]
    n = len(parents)
    root0 = parents.index(-1)
    before = {k: v.copy() for k, v in tree.ndata.items()}
    out = redirect_tree(tree, r, sort=sort)
    for k, v in before.items():
        ctx.check(np.array_equal(tree.ndata[k], v), "redirect/input-unchanged", f"column {k} modified")
    ctx.check(len(out) == n, "redirect/node-count", f"{len(out)} != {n}")
    tags = [int(v) for v in out.get_ndata("tag")]
    ctx.check(sorted(tags) == sorted(t["tag"]), "redirect/node-set", "tag set changed")
    pids = out.pid().tolist()
    ids = out.id().tolist()
    ctx.check(ids == list(range(n)), "redirect/ids", lambda: f"ids {ids}")
    roots = [i for i, p in enumerate(pids) if p == -1]
    ctx.check(len(roots) == 1 and tags[roots[0]] == t["tag"][r], "redirect/requested-node-is-the-unique-root",
              lambda: f"roots at {roots}, tags {[tags[i] for i in roots]}, requested tag {t['tag'][r]}")
    ctx.check(all(0 <= p < n for i, p in enumerate(pids) if i != roots[0]), "redirect/parents-in-range", "")
    want_edges = _undirected(parents, t["tag"])
    got_edges = _undirected(pids, tags)
    ctx.check(want_edges == got_edges, "redirect/undirected-edges",
              lambda: f"lost {want_edges - got_edges}, added {got_edges - want_edges}")
    if sort:
        reason = models.wellformed(ids, pids, require_sorted=True)
        ctx.check(reason is None, "redirect/sorted-wellformed", reason)
    else:
        ctx.check(tags == t["tag"], "redirect/nosort-keeps-rows-in-place", "rows moved although sort=False")
    old_of_tag = {tg: i for i, tg in enumerate(t["tag"])}
    for new, tg in enumerate(tags):
        old = old_of_tag[tg]
        want_type = t["type"][old]
        if old == r:
            want_type = t["type"][root0]
        elif old == root0:
            want_type = t["type"][r]
        ctx.check(int(out.type()[new]) == want_type, "redirect/root-types-exchanged",
                  lambda: f"node tagged {tg} has type {out.type()[new]}, expected {want_type}")
        for col in ("x", "y", "z", "r", "w"):
            ctx.check(float(out.get_ndata(col)[new]) == float(np.float32(t[col][old])),
                      "redirect/attributes-kept", f"column {col} of node tagged {tg}")
        if "named" in t:
            ctx.check(float(out.get_ndata(t["named_col"])[new]) == t["named"][old], "redirect/attributes-kept",
                      lambda: f"column {t['named_col']} of node tagged {tg}: {out.get_ndata(t['named_col'])[new]} != {t['named'][old]}")
    return out


# ----------------------------------------------------------------------------- cat_tree
@st.composite
def cat_case(draw, tier):
    max_n = 16 if tier == "quick" else 80
    t1 = draw(gen_tree.tree_case(min_n=1, max_n=max_n, regimes=["lattice"], mag=64))
    t2 = draw(gen_tree.tree_case(min_n=1, max_n=max_n, regimes=["lattice"], mag=64))
    for t in (t1, t2):  # lattice within +-64
        for c in "xyz":
            t[c] = [((v * 8) % 1024 - 512) / 8.0 for v in t[c]]
    t2["tag"] = [v + 10000 for v in t2["tag"]]
    n1, n2 = len(t1["parents"]), len(t2["parents"])
    k = draw(st.integers(0, 3))
    node1 = 0 if k == 0 else draw(st.integers(0, n1 - 1))
    k = draw(st.integers(0, 3))
    node2 = 0 if k == 0 else draw(st.integers(0, n2 - 1))
    translate = draw(st.booleans())
    coincide = draw(st.booleans())
    near = False
    if not translate:
        if coincide:
            for c in "xyz":
                t2[c][node2] = t1[c][node1]
        elif draw(st.booleans()):
            # a near miss: the second junction sits an eighth or a quarter of a unit beside the first one
            for c in "xyz":
                t2[c][node2] = t1[c][node1]
            t2[draw(st.sampled_from("xyz"))][node2] += draw(st.sampled_from([0.125, -0.125, 0.25]))
            near = True
        elif all(t2[c][node2] == t1[c][node1] for c in "xyz"):
            t2["x"][node2] = t1["x"][node1] + 0.125
    far = draw(st.sampled_from([None, None, [32768, -16384, 8192], [-30720, 30720, 1024], [4096, 0, -32768]]))
    almost = False
    if translate and draw(st.integers(0, 3)) == 0:
        # translation requested although the junctions already lie almost on top of each other: 2^-12 or 2^-13 of a unit
        # apart along one axis (the second tree still has to be moved by exactly that much, and the junctions merged)
        for c in "xyz":
            t2[c][node2] = t1[c][node1]
        t2[draw(st.sampled_from("xyz"))][node2] += draw(st.sampled_from([2.0 ** -12, -2.0 ** -12, 2.0 ** -13]))
        almost = True
        far = draw(st.sampled_from([None, [1024, -512, 256], [-1024, 768, 0]]))  # sums stay exact in float32 below 2^11
    if far:
        # both neurons sit far from the origin (stack coordinates): multiples of 1/8 stay exact in float32 up to 2^16
        for t in (t1, t2):
            for c, o in zip("xyz", far):
                t[c] = [v + o for v in t[c]]
    return {"t1": t1, "t2": t2, "node1": node1, "node2": node2, "translate": translate, "far": bool(far), "near": near, "almost": almost,
            # the first tree may hold the shared extra column in a narrower dtype (whole numbers as int32) than the second
            "cols1": draw(st.sampled_from([["tag", "w"], ["tag"], ["tag", "w:int"], ["tag", "w", "eswc"]])),
            "inspect_first": draw(st.integers(0, 2)) == 0,
            "eswc_name": draw(st.sampled_from(gen_tree.ESWC_NAMES[:5])),
            # the junction mode given through the deprecated spelling no_move= (the opposite of translate=)
            "legacy_kw": draw(st.integers(0, 4)) == 0,
            "cols2": draw(st.sampled_from([["tag", "w"], ["tag"], ["tag", "w", "q"], ["tag", "w", "eswc"]]))}


def _build(t, cols, eswc_name="feature_value"):
    from swcgeom.core import Tree

    n = len(t["parents"])
    kw = {}
    if "tag" in cols:
        kw["tag"] = np.array(t["tag"], dtype=np.int32)
    if "w" in cols:
        kw["w"] = np.array(t["w"], dtype=np.float32)
    if "w:int" in cols:
        kw["w"] = np.round(np.array(t["w"], dtype=np.float64)).astype(np.int32)
    if "q" in cols:
        kw["q"] = np.arange(n, dtype=np.float32) + 0.5
    if "eswc" in cols:  # fractions stored under a name the extended SWC format also knows
        kw[eswc_name] = np.array(t["w"], dtype=np.float32) + np.float32(0.375)
    return Tree(n, id=np.arange(n, dtype=np.int32), pid=np.array(t["parents"], dtype=np.int32),
                type=np.array(t["type"], dtype=np.int32), x=np.array(t["x"], dtype=np.float32),
                y=np.array(t["y"], dtype=np.float32), z=np.array(t["z"], dtype=np.float32),
                r=np.array(t["r"], dtype=np.float32), **kw)


def run_cat(case, ctx):
    from swcgeom.core import cat_tree

    t1, t2, a, b, translate = case["t1"], case["t2"], case["node1"], case["node2"], case["translate"]
    p1, p2 = t1["parents"], t2["parents"]
    n1, n2 = len(p1), len(p2)
    en = case.get("eswc_name", "feature_value")
    tree1, tree2 = _build(t1, case["cols1"], en), _build(t2, case["cols2"], en)
    if case.get("inspect_first"):
        _look_around(tree1, ctx)
        _look_around(tree2, ctx)
    snap1 = {k: v.copy() for k, v in tree1.ndata.items()}
    snap2 = {k: v.copy() for k, v in tree2.ndata.items()}
    j1 = np.array([t1[c][a] for c in "xyz"], dtype=np.float64)
    j2 = np.array([t2[c][b] for c in "xyz"], dtype=np.float64)
    shift = (j1 - j2) if translate else np.zeros(3)
    merged = bool(translate or np.array_equal(j1, j2))
    ctx.cls("translate" if translate else "no-translate", "merged" if merged else "linked",
            "node2-is-root" if b == 0 else "node2-not-root", "node1-is-root" if a == 0 else "node1-not-root",
            "cols1:" + "+".join(case["cols1"]), "cols2:" + "+".join(case["cols2"]))
    if case.get("far"):
        ctx.cls("far-from-the-origin")
    if case.get("almost"):
        ctx.cls("translation-by-a-tiny-offset")
    if case.get("near") and not merged:
        ctx.cls("junctions-a-fraction-of-a-unit-apart")
        if case.get("far"):
            ctx.cls("near-miss-far-from-the-origin")
    ctx.nontrivial(n1 >= 3 and n2 >= 3 and a != 0 and b != 0)

    if case.get("legacy_kw"):
        ctx.cls("junction-mode-through-the-deprecated-keyword")
        out = cat_tree(tree1, tree2, a, b, no_move=not translate)
    else:
        out = cat_tree(tree1, tree2, a, b, translate=translate)

    for k, v in snap1.items():
        ctx.check(np.array_equal(tree1.ndata[k], v), "cat/first-input-unchanged", f"column {k}")
    for k, v in snap2.items():
        ctx.check(np.array_equal(tree2.ndata[k], v), "cat/second-input-unchanged", f"column {k}")
    want_n = n1 + n2 - (1 if merged else 0)
    ctx.check(len(out) == want_n, "cat/node-count", f"{len(out)} nodes, expected {want_n}")
    ctx.check(set(out.keys()) == set(snap1), "cat/columns-of-first-tree", lambda: f"{sorted(out.keys())}")
    if "w:int" in case["cols1"] and "w" in case["cols2"]:
        ctx.cls("shared-column-narrower-in-the-first-tree")
    reason = models.wellformed(out.id(), out.pid(), require_sorted=True)
    ctx.check(reason is None, "cat/sorted-wellformed", reason)
    tags = [int(v) for v in out.get_ndata("tag")]
    want_tags = set(t1["tag"]) | {tg for i, tg in enumerate(t2["tag"]) if not (merged and i == b)}
    ctx.check(len(set(tags)) == len(tags) and set(tags) == want_tags, "cat/node-set",
              lambda: f"missing {want_tags - set(tags)}, unexpected {set(tags) - want_tags}")
    pids = out.pid().tolist()
    new_of_tag = {tg: i for i, tg in enumerate(tags)}

    def ptag(tg):
        p = pids[new_of_tag[tg]]
        return -1 if p == -1 else tags[p]

    # first tree: unchanged in every column, same parents
    for i in range(n1):
        tg = t1["tag"][i]
        new = new_of_tag[tg]
        want = -1 if p1[i] == -1 else t1["tag"][p1[i]]
        ctx.check(ptag(tg) == want, "cat/first-tree-parents", lambda: f"node tagged {tg}: parent {ptag(tg)} != {want}")
        for col in ("type", "x", "y", "z", "r"):
            ctx.check(float(out.get_ndata(col)[new]) == float(np.float32(t1[col][i])),
                      "cat/first-tree-attributes", f"column {col} of node tagged {tg}")
        if "w" in case["cols1"]:
            ctx.check(float(out.get_ndata("w")[new]) == t1["w"][i], "cat/first-tree-attributes", "column w")
        if "w:int" in case["cols1"]:
            ctx.check(float(out.get_ndata("w")[new]) == float(round(t1["w"][i])), "cat/first-tree-attributes", "column w (whole numbers)")
        if "eswc" in case["cols1"]:
            ctx.check(float(out.get_ndata(en)[new]) == t1["w"][i] + 0.375, "cat/first-tree-attributes",
                      lambda: f"column {en}: {out.get_ndata(en)[new]} expected {t1['w'][i] + 0.375}")
    if "eswc" in case["cols1"]:
        ctx.cls("extra-column-under-an-eswc-name")
    # second tree: parent = next node on the way to the junction
    path_to_root = [b] + models.ancestors(p2, b)  # b .. old root
    toward = {}
    for i in range(n2):
        if i == b:
            continue
        if i in path_to_root:
            toward[i] = path_to_root[path_to_root.index(i) - 1]
        else:
            toward[i] = p2[i]
    for i in range(n2):
        tg = t2["tag"][i]
        if i == b:
            if merged:
                continue
            ctx.check(ptag(tg) == t1["tag"][a], "cat/junction-edge",
                      lambda: f"junction 2 hangs from {ptag(tg)}, expected junction 1 {t1['tag'][a]}")
        else:
            nxt = toward[i]
            want = t1["tag"][a] if (nxt == b and merged) else t2["tag"][nxt]
            ctx.check(ptag(tg) == want, "cat/second-tree-edges",
                      lambda: f"node tagged {tg}: parent {ptag(tg)}, expected {want}")
        new = new_of_tag[tg]
        want_type = t2["type"][i]
        if b != 0:
            want_type = t2["type"][0] if i == b else t2["type"][b] if i == 0 else want_type
        ctx.check(int(out.type()[new]) == want_type, "cat/second-tree-types",
                  lambda: f"node tagged {tg}: type {out.type()[new]}, expected {want_type}")
        for k, col in enumerate("xyz"):
            want = float(np.float32(t2[col][i])) + shift[k]
            ctx.check(float(out.get_ndata(col)[new]) == want, "cat/translation",
                      lambda: f"node tagged {tg}: {col}={out.get_ndata(col)[new]}, expected {want}")
        ctx.check(float(out.r()[new]) == float(np.float32(t2["r"][i])), "cat/second-tree-attributes", "radius")
        if "w" in case["cols1"] or "w:int" in case["cols1"]:
            want = t2["w"][i] if "w" in case["cols2"] else 0.0
            ctx.check(float(out.get_ndata("w")[new]) == want, "cat/second-tree-attributes",
                      lambda: f"column w: {out.get_ndata('w')[new]} expected {want}")
        if "eswc" in case["cols1"]:
            want = t2["w"][i] + 0.375 if "eswc" in case["cols2"] else 0.0
            ctx.check(float(out.get_ndata(en)[new]) == want, "cat/second-tree-attributes",
                      lambda: f"column {en}: {out.get_ndata(en)[new]} expected {want}")
    if merged and translate:
        new = new_of_tag[t1["tag"][a]]
        for k, col in enumerate("xyz"):
            ctx.check(float(out.get_ndata(col)[new]) == j1[k], "cat/junction-position", "junction 1 moved")


# ----------------------------------------------------------------------------- path reversal
@st.composite
def path_case(draw, tier):
    t = draw(gen_tree.tree_case(min_n=2, max_n=20, shapes=["chain", "uniform", "binary"], regimes=["lattice"],
                                permute=False))
    return {"tree": t, "tip_sel": draw(st.integers(0, 1000))}


def run_path(case, ctx):
    from swcgeom.transforms import PathReverser, PathToTree

    t = case["tree"]
    tree = gen_tree.build_tree(t)
    ps = models.paths(t["parents"])
    ids = list(ps[case["tip_sel"] % len(ps)])
    path = tree.Path(tree, ids)
    ctx.nontrivial(len(ids) >= 3)
    ctx.cls("path-len>=3" if len(ids) >= 3 else "path-len<3")
    chain = PathToTree()(path)
    ctx.check(len(chain) == len(ids) and chain.pid().tolist() == list(range(-1, len(ids) - 1)),
              "path_to_tree/chain", lambda: f"pids {chain.pid().tolist()}")
    for col in "xyzr":
        ctx.check(chain.get_ndata(col).tolist() == [float(np.float32(t[col][i])) for i in ids],
                  "path_to_tree/attributes", f"column {col}")
    rev = PathReverser()(path)
    ctx.check(len(rev) == len(ids), "path_reverser/length", f"{len(rev)} != {len(ids)}")
    for col in "xyzr":
        ctx.check(rev.get_ndata(col).tolist() == [float(np.float32(t[col][i])) for i in reversed(ids)],
                  "path_reverser/points-reversed", f"column {col}")
    # re-rooting the path at its far end keeps every node's type, except that the two ends exchange theirs
    want_types = [int(t["type"][i]) for i in reversed(ids)]
    want_types[0], want_types[-1] = want_types[-1], want_types[0]
    got_types = [int(v) for v in rev.type()]
    if want_types != want_types[::-1]:
        ctx.cls("path-types-not-a-palindrome")
    ctx.check(got_types == want_types, "path_reverser/types-kept-ends-exchanged", lambda: f"{got_types} vs {want_types}")


SUBCHECKS = [
    Sub("redirect", redirect_case, run_redirect, quick=1500, thorough=20000, shards_quick=4,
        required={"sort": 200, "nosort": 200, "permuted": 200, "new-root-is-old-root": 10,
                  "re-rooted-again-from-a-root-that-is-not-node-0": 150, "trees-inspected-before-the-operation": 200,
                  "extra-column-under-an-eswc-name": 200}),
    Sub("cat", cat_case, run_cat, quick=1200, thorough=16000, shards_quick=4,
        required={"merged": 100, "linked": 100, "translate": 100, "no-translate": 100,
                  "node2-not-root": 100, "cols2:tag": 50, "cols2:tag+w+q": 50, "far-from-the-origin": 200,
                  "junctions-a-fraction-of-a-unit-apart": 33, "near-miss-far-from-the-origin": 20,
                  "junction-mode-through-the-deprecated-keyword": 100, "shared-column-narrower-in-the-first-tree": 78,
                  "trees-inspected-before-the-operation": 200, "extra-column-under-an-eswc-name": 65,
                  "translation-by-a-tiny-offset": 25}),
    Sub("path", path_case, run_path, quick=600, thorough=3000, shards_quick=2,
        required={"path-len>=3": 50, "path-types-not-a-palindrome": 50}),
]
