"""C02 — SWC reading keeps every data row, in order, or fails loudly."""
import io
import os
import warnings
from fractions import Fraction

import numpy as np
from hypothesis import strategies as st

from vlib import gen_swc, ref_text
from vlib.gen_swc import frac_of
from vlib.harness import Fuzz, Sub

PROPERTY = "C02"
RULE = (
    "SWC texts are assembled line by line from the line grammar (numbers drawn as digits + point "
    "position + power of ten so their exact value is known, then spelled in exponent / leading-zero / "
    "'.5' / '5.' / '+' forms; space/tab separator runs; leading/trailing blanks; CRLF; missing final "
    "newline; comment and blank lines anywhere; requested and unrequested extra fields) and read "
    "through StringIO / BytesIO (utf-8, ascii, latin-1, utf-16, 'detect') / a file path. "
    "Non-trivial valid case: >= 3 rows and >= 2 distinct formatting features beyond the canonical "
    "spelling. Malformed family: the same texts with 1-3 injected lines (fewer than seven fields or a "
    "non-numeric token in one of the seven fields) or one undecodable byte; non-trivial: a bad line "
    "with >= 1 valid row before and after it. Sorted family: arbitrary distinct ids, arbitrary row (numbering modes: scattered ids, a gap-free range shuffled, a gap-free range with the root first holding the smallest id, rows parents-first with ids counting down or scattered) "
    "order; non-trivial: >= 4 rows, not already in parent-before-child id order."
)
ASSUMPTIONS = [
    "ids/types are unsigned digit strings, pid is '-1' or unsigned digits (the only integer spellings the format has)",
    "reference values are exact rationals converted with Fraction.__float__ (correctly rounded), independent of the parser",
    "a trailing '\\r' left on a comment by a StringIO source that contains CRLF is not asserted",
]

ENC = ["utf-8", "utf-8", "ascii", "latin-1", "utf-16", "detect"]


def _source(text, kind, encoding, ctx, name="f.swc"):
    """Returns (source object, kwargs)."""
    if kind == "str":
        return io.StringIO(text), {}
    enc = "ascii" if encoding == "detect" else encoding
    data = text.encode(enc)
    if kind == "bytes":
        return io.BytesIO(data), {"encoding": encoding}
    path = os.path.join(ctx.tmpdir, name)
    with open(path, "wb") as f:
        f.write(data)
    return path, {"encoding": encoding}


def _f64(s):
    fr = frac_of(s)
    return fr.numerator / fr.denominator if fr.denominator != 1 else float(fr.numerator)


def _exact(s):
    return float(Fraction(frac_of(s)))


# ----------------------------------------------------------------------------- valid texts
@st.composite
def valid_case(draw, tier):
    max_rows = 14 if tier == "quick" else 60
    kind = draw(st.sampled_from(["str", "str", "bytes", "bytes", "path"]))
    encoding = "utf-8" if kind == "str" else draw(st.sampled_from(ENC))
    unicode_ok = kind != "str" and encoding in ("utf-8", "utf-16") or kind == "str"
    family = draw(st.sampled_from(["default", "default", "raw"]))
    doc = draw(gen_swc.swc_document(max_rows=max_rows, family=family, unicode_ok=unicode_ok))
    reset = draw(st.booleans()) if family == "default" else False
    if family == "raw" and doc["root_first"] and draw(st.booleans()):
        # arbitrary ids, root in the first row: re-basing shifts every id and parent id by the root id (ids may go
        # negative); only a file in which some id equals root - 1 would make the -1 marker ambiguous
        root = doc["rows"][0]["id"]
        reset = all(r["id"] != root - 1 for r in doc["rows"])
    return {"doc": doc, "kind": kind, "encoding": encoding, "reset_index": reset,
            # the process has just failed to read another source (a malformed line, undecodable bytes, a missing file): the
            # caller caught the error and goes on with this one
            "failed_before": draw(st.sampled_from([None, None, None, "malformed", "undecodable", "missing", "malformed-twice"]))}


def run_valid(case, ctx):
    from swcgeom.core import Tree
    from swcgeom.core.swc_utils import read_swc

    doc = case["doc"]
    text = gen_swc.render(doc)
    rows = doc["rows"]
    extra_cols = ["ea", "eb"][: doc["n_req"]] or None
    fb = case.get("failed_before")
    if fb:
        for _ in range(2 if fb == "malformed-twice" else 1):
            if fb.startswith("malformed"):
                bad = _source("1 1 0 0 0 1 -1\n2 3 1 0 0 1 1\nthis is not a row\n3 3 2 0 0 1 2\n", case["kind"], "utf-8", ctx, name="bad.swc")
            elif fb == "undecodable":
                bad_path = os.path.join(ctx.tmpdir, "bad.swc")
                with open(bad_path, "wb") as f:
                    f.write(b"1 1 0 0 0 1 -1\n# caf\xe9 \xff\xfe\n2 3 1 0 0 1 1\n")
                bad = (io.BytesIO(open(bad_path, "rb").read()) if case["kind"] == "bytes" else bad_path, {"encoding": "utf-8"})
            else:
                bad = (os.path.join(ctx.tmpdir, "no-such-file.swc"), {})
            try:
                read_swc(bad[0], **bad[1])
            except Exception:  # noqa - the failure itself is judged by the `malformed` sub-check
                pass
            try:
                Tree.from_swc(bad[0] if not hasattr(bad[0], "seek") or bad[0].closed else os.path.join(ctx.tmpdir, "no-such-file.swc"))
            except Exception:  # noqa
                pass
        ctx.cls("read-after-a-failed-read")
    src, kw = _source(text, case["kind"], case["encoding"], ctx)
    ctx.cls("src:" + case["kind"], "enc:" + case["encoding"], "family:" + doc["family"],
            "reset" if case["reset_index"] else "noreset")
    if case["reset_index"] and doc["family"] == "raw":
        ctx.cls("reset-with-arbitrary-ids")
    for f in doc["features"]:
        ctx.cls("feat:" + f)
    if doc["n_req"]:
        ctx.cls("requested-extras")
    ctx.nontrivial(len(rows) >= 3 and len(doc["features"]) >= 2)

    with warnings.catch_warnings(record=True) as w:
        warnings.simplefilter("always")
        try:
            df, comments = read_swc(src, extra_cols=extra_cols, reset_index=case["reset_index"], **kw)
        except Exception as e:  # noqa
            cls = "valid-text-rejected"
            if "unrequested-extra-exponent" in doc["features"]:
                cls += "/unrequested-extra-with-exponent"
            ctx.fail(cls, f"{type(e).__name__}: {e} on text {text!r}")
    ctx.check(len(df) == len(rows), "row-count",
              lambda: f"{len(df)} rows returned for {len(rows)} data rows; text={text!r}")
    shift = rows[0]["id"] if case["reset_index"] else 0
    want_id = [r["id"] - shift for r in rows]
    want_pid = [(r["pid"] - shift) if r["pid"] != -1 else -1 for r in rows]
    ctx.check(df["id"].tolist() == want_id, "ids", lambda: f"{df['id'].tolist()} != {want_id}")
    ctx.check(df["pid"].tolist() == want_pid, "pids", lambda: f"{df['pid'].tolist()} != {want_pid}")
    ctx.check(df["type"].tolist() == [r["type"] for r in rows], "types", "type column differs")
    for col in "xyzr":
        want = [_exact(r[col]) for r in rows]
        got = df[col].tolist()
        ctx.check(got == want, "float-values", lambda: f"column {col}: {got} != {want}; text={text!r}")
    for k, name in enumerate(extra_cols or []):
        want = [_exact(r["extra"][k]) for r in rows]
        got = df[name].tolist()
        ctx.check(got == want, "extra-values", lambda: f"extra {name}: {got} != {want}")
    # the line terminator is not part of a comment; only a text stream that hands out raw CR LF lines itself (a StringIO
    # built from such text does no newline translation) may leave the CR on the comment
    got_c = [c.rstrip("\r\n") if case["kind"] == "str" else c.rstrip("\n") for c in comments]
    ctx.check(got_c == doc["comments"], "comments", lambda: f"{got_c!r} != {doc['comments']!r}")
    if doc["unrequested"]:
        # "fields beyond the requested columns only cause a warning": some warning (whatever its category or wording)
        # that the same text without those fields does not draw
        import re

        keep = 7 + doc["n_req"]
        lines1 = list(doc["lines"])
        for r in rows:
            lines1[r["line"]] = " ".join(lines1[r["line"]].split()[:keep])
        src1, kw1 = _source(gen_swc.render(dict(doc, lines=lines1)), case["kind"], case["encoding"], ctx, "control.swc")
        with warnings.catch_warnings(record=True) as w1:
            warnings.simplefilter("always")
            ctx.lib("read_swc[control without the extra fields]", read_swc, src1, extra_cols=extra_cols, reset_index=case["reset_index"], **kw1)
        norm = lambda m: re.sub(r"0x[0-9a-fA-F]+", "0x", str(m)).replace("control.swc", "f.swc")  # noqa
        control = {norm(x.message) for x in w1}
        ctx.check(any(norm(x.message) not in control for x in w), "extra-fields-warning",
                  lambda: f"unrequested fields but no warning of their own: {[str(x.message) for x in w]}")

    # the Tree front end on tables it accepts: ids consecutive, root first
    if doc["family"] == "default":
        src2, kw2 = _source(text, case["kind"], case["encoding"], ctx, "g.swc")
        t = Tree.from_swc(src2, extra_cols=extra_cols, **kw2)
        base = rows[0]["id"]
        ctx.check(len(t) == len(rows), "tree/row-count", f"{len(t)} nodes for {len(rows)} rows")
        ctx.check(t.id().tolist() == list(range(len(rows))), "tree/ids", "ids are not positions")
        ctx.check(t.pid().tolist() == [(r["pid"] - base) if r["pid"] != -1 else -1 for r in rows],
                  "tree/pids", "parents differ")
        for col in "xyzr":
            want = np.array([_exact(r[col]) for r in rows], dtype=np.float64).astype(np.float32)
            got = t.get_ndata(col)
            ctx.check(got.dtype == np.float32 and np.array_equal(got, want), "tree/float-values",
                      lambda: f"column {col}: {got.tolist()} != {want.tolist()}")


# ----------------------------------------------------------------------------- malformed texts
@st.composite
def malformed_case(draw, tier):
    max_rows = 12 if tier == "quick" else 50
    mode = draw(st.sampled_from(["line", "line", "line", "byte"]))
    kind = draw(st.sampled_from(["str", "bytes", "path"])) if mode == "line" else \
        draw(st.sampled_from(["bytes", "path"]))
    encoding = "utf-8" if mode == "byte" else draw(st.sampled_from(["utf-8", "ascii", "latin-1", "utf-16"]))
    doc = draw(gen_swc.swc_document(max_rows=max_rows, family="default", allow_unrequested=False))
    case = {"doc": doc, "kind": kind, "encoding": encoding, "mode": mode,
            "api": draw(st.sampled_from(["read_swc", "read_swc", "Tree.from_swc", "Population"])),
            "opts": draw(st.sampled_from([{}, {}, {"sort_nodes": True}, {"reset_index": False},
                                          {"fix_roots": "somas"}]))}
    nlines = len(doc["lines"])
    if mode == "line":
        k = draw(st.integers(1, 3))
        inj = []
        for _ in range(k):
            pos = draw(st.integers(0, nlines))
            t, cls = draw(gen_swc.malformed_line())
            inj.append([pos, t, cls])
        case["inject"] = inj
    else:
        pad = draw(st.sampled_from([0, 0, 0, 9000]))  # beyond the first 8 KiB read buffer
        case["pad_rows"] = pad // 30
        case["byte_pos"] = draw(st.integers(0, 10 ** 6))
        case["bad_byte"] = draw(st.sampled_from([0xFF, 0xFE, 0xC0, 0x80]))
    if kind == "str" and case["api"] == "Population":
        case["api"] = "read_swc"
    if case["api"] == "Population":
        case["kind"] = "path"
    return case


def _malformed_payload(case):
    """Returns (text or bytes, n_rows_before_first_bad, n_rows_after_last_bad, classes)."""
    doc = case["doc"]
    lines = list(doc["lines"])
    row_lines = sorted(r["line"] for r in doc["rows"])
    if case["mode"] == "line":
        inj = sorted(case["inject"], key=lambda t: t[0])
        first, last = inj[0][0], inj[-1][0]
        before = sum(1 for ln in row_lines if ln < first)
        after = sum(1 for ln in row_lines if ln >= last)
        for pos, t, _cls in reversed(inj):
            lines.insert(pos, t)
        text = doc["eol"].join(lines) + (doc["eol"] if doc["final_newline"] else "")
        return text, before, after, [c for _, _, c in inj]
    # undecodable byte
    pad = []
    base = doc["rows"][-1]["id"] + 1
    root = doc["rows"][0]["id"]
    for i in range(case.get("pad_rows", 0)):
        pad.append(f"{base + i} 3 {i}.5 0 0 1 {root}")
    text = "\n".join(lines + pad) + "\n"
    data = bytearray(text.encode("utf-8"))
    pos = case["byte_pos"] % (len(data) + 1)
    data[pos:pos] = bytes([case["bad_byte"]])
    # rows completely before the bad byte
    off, before, after = 0, 0, 0
    rl = set(row_lines)
    for i, ln in enumerate(lines + pad):
        end = off + len(ln.encode("utf-8")) + 1
        is_row = i in rl or i >= len(lines)
        if is_row and end <= pos:
            before += 1
        elif is_row and off > pos:
            after += 1
        off = end
    return bytes(data), before, after, ["bad-byte" + ("-beyond-8k" if pos > 8192 else "")]


def run_malformed(case, ctx):
    from swcgeom.core import Population, Tree
    from swcgeom.core.swc_utils import read_swc

    payload, before, after, classes = _malformed_payload(case)
    ctx.cls(*["inj:" + c.split("-field")[0] for c in classes], "api:" + case["api"],
            "src:" + case["kind"])
    for c in classes:
        if c.startswith("bad-token-field"):
            ctx.cls("badfield:" + c[len("bad-token-field")])
        if c.endswith("-hash"):
            ctx.cls("inj:hash-sign-inside-a-row")
    if before == 0:
        ctx.cls("bad-before-any-row")
    if after == 0:
        ctx.cls("bad-after-all-rows")
    ctx.nontrivial(before >= 1 and (after >= 1 or case["mode"] == "byte"))
    if isinstance(payload, str):
        src, kw = _source(payload, case["kind"], case["encoding"], ctx)
    else:
        if case["kind"] == "bytes":
            src, kw = io.BytesIO(payload), {}
        else:
            src = os.path.join(ctx.tmpdir, "bad.swc")
            with open(src, "wb") as f:
                f.write(payload)
            kw = {}
    kw = dict(kw, **case["opts"])
    api = case["api"]
    try:
        if api == "read_swc":
            out = read_swc(src, **kw)
            got = f"a table of {len(out[0])} rows"
        elif api == "Tree.from_swc":
            out = Tree.from_swc(src, **kw)
            got = f"a tree of {len(out)} nodes"
        else:
            d = os.path.join(ctx.tmpdir, "pop")
            os.makedirs(d, exist_ok=True)
            os.replace(src, os.path.join(d, "bad.swc"))
            pop = Population.from_swc(d, **kw)
            ctx.check(len(pop) == 1, "population/len", "one file, length != 1")
            out = pop[0]
            got = f"a tree of {len(out)} nodes (through Population)"
    except ValueError:
        return
    except Exception as e:  # noqa
        if api == "read_swc":
            return  # read_swc: any error is loud enough
        ctx.fail(f"malformed/{api}-raises-other-than-ValueError", f"{type(e).__name__}: {e}")
    finally:
        p = os.path.join(ctx.tmpdir, "pop", "bad.swc")
        if os.path.exists(p):
            os.remove(p)
    kind = "undecodable-byte" if case["mode"] == "byte" else "malformed-line"
    ctx.fail(f"{kind}-accepted", f"{api} returned {got} for {classes} "
             f"({before} rows before, {after} after): {payload[:300]!r}")


# ----------------------------------------------------------------------------- sort_nodes=True
@st.composite
def sorted_case(draw, tier):
    max_rows = 14 if tier == "quick" else 60
    kind = draw(st.sampled_from(["str", "bytes", "path"]))
    doc = draw(gen_swc.swc_document(max_rows=max_rows, family="raw"))
    return {"doc": doc, "kind": kind, "encoding": "utf-8"}


def run_sorted(case, ctx):
    from swcgeom.core import Tree
    from swcgeom.core.swc_utils import read_swc

    doc = case["doc"]
    rows = doc["rows"]
    n = len(rows)
    text = gen_swc.render(doc)
    extra_cols = ["ea", "eb"][: doc["n_req"]] or None
    src, kw = _source(text, case["kind"], case["encoding"], ctx)
    by_id = {r["id"]: r for r in rows}
    pos_sorted = all(r["pid"] == -1 or r["pid"] < r["id"] for r in rows)
    ctx.cls("root-first" if doc["root_first"] else "root-not-first",
            "already-sorted" if pos_sorted else "unsorted", "ids:" + doc.get("id_mode", "sparse"))
    ctx.nontrivial(n >= 4 and not pos_sorted)
    df, _ = read_swc(src, extra_cols=extra_cols, sort_nodes=True, **kw)
    ctx.check(len(df) == n, "sorted/row-count", f"{len(df)} != {n}")
    ids, pids = df["id"].tolist(), df["pid"].tolist()
    ctx.check(ids == list(range(n)), "sorted/ids", lambda: f"ids {ids}")
    ctx.check(pids[0] == -1 and all(0 <= p < i for i, p in enumerate(pids) if i > 0),
              "sorted/parent-before-child", lambda: f"pids {pids}")
    # isomorphism through the unique tag stored in x (= node index)
    tags = df["x"].tolist()
    ctx.check(sorted(tags) == [float(i) for i in range(n)], "sorted/bijection", lambda: f"tags {tags}")
    node_of_row = {r["node"]: r for r in rows}
    for i in range(n):
        r = node_of_row[int(tags[i])]
        want_parent_tag = -1 if r["pid"] == -1 else by_id[r["pid"]]["node"]
        got_parent_tag = -1 if pids[i] == -1 else int(tags[pids[i]])
        ctx.check(want_parent_tag == got_parent_tag, "sorted/parent-relation",
                  lambda: f"node tag {tags[i]} has parent tag {got_parent_tag}, file says {want_parent_tag}")
        ctx.check(df["type"].iloc[i] == r["type"], "sorted/columns", "type not carried")
        for col in "yzr":
            ctx.check(df[col].iloc[i] == _exact(r[col]), "sorted/columns", f"{col} not carried")
        for k, name in enumerate(extra_cols or []):
            ctx.check(df[name].iloc[i] == _exact(r["extra"][k]), "sorted/columns", f"{name} not carried")
    src2, kw2 = _source(text, case["kind"], case["encoding"], ctx, "h.swc")
    t = Tree.from_swc(src2, extra_cols=extra_cols, sort_nodes=True, **kw2)
    ctx.check(t.pid().tolist() == pids and len(t) == n, "sorted/tree", "Tree.from_swc differs from read_swc")


# ----------------------------------------------------------------------------- a directory of files read lazily
@st.composite
def population_case(draw, tier):
    """Two to four valid files in one directory, written in different encodings (pure ASCII, UTF-8 / UTF-16 with
    non-ASCII comments), read through a lazily loading Population with one set of read options, members requested in
    any order (with repeats)."""
    k = draw(st.integers(2, 4))
    docs = []
    for i in range(k):
        enc = draw(st.sampled_from(["ascii", "utf-8", "utf-8", "utf-16"]))
        doc = draw(gen_swc.swc_document(max_rows=8, family="default", allow_unrequested=False, unicode_ok=enc != "ascii"))
        docs.append({"doc": doc, "enc": enc})
    return {"docs": docs, "encoding": draw(st.sampled_from(["detect", "detect", "utf-8"])),
            "order": draw(st.lists(st.integers(0, k - 1), min_size=k, max_size=2 * k))}


def _tree_signature(t):
    return (len(t), t.pid().tolist(), t.type().tolist(), [t.get_ndata(c).tolist() for c in "xyzr"],
            [c.rstrip("\n") for c in t.comments])


def run_population(case, ctx):
    from swcgeom.core import Population, Tree

    d = os.path.join(ctx.tmpdir, "pop")
    if os.path.isdir(d):
        import shutil

        shutil.rmtree(d)
    os.makedirs(d)
    texts = []
    for i, item in enumerate(case["docs"]):
        text = gen_swc.render(item["doc"])
        if item["enc"] == "ascii":
            text = text.encode("ascii", "replace").decode("ascii")
        texts.append(text)
        with open(os.path.join(d, f"m{i}.swc"), "wb") as f:
            f.write(text.encode(item["enc"] if item["enc"] != "ascii" else "ascii"))
    kw = {"encoding": case["encoding"]}
    encs = sorted({item["enc"] for item in case["docs"]})
    ctx.cls("pop-enc:" + case["encoding"], "files:" + "+".join(encs))
    ctx.nontrivial(len(encs) >= 2 and case["encoding"] == "detect")
    # what each file gives when read on its own with the same options (a value, or a loud refusal)
    alone = {}
    for i in range(len(texts)):
        path = os.path.join(d, f"m{i}.swc")
        try:
            alone[path] = ("ok", _tree_signature(Tree.from_swc(path, **kw)))
        except Exception as e:  # noqa - e.g. a UTF-16 file read as UTF-8: loud, and the same through the population
            alone[path] = ("raises", type(e).__name__)
    try:
        pop = Population.from_swc(d, **kw)
    except Exception as e:  # noqa
        # building a population may probe its first file: a file that is refused on its own may be refused here
        first = os.path.abspath(ctx.lib("Population.find_swcs", Population.find_swcs, d)[0])
        ctx.check(alone.get(first, ("ok",))[0] == "raises", "population/construction-refused-although-the-first-file-reads-on-its-own",
                  lambda: f"{type(e).__name__}: {e}")
        ctx.cls("construction-refused-with-the-first-file")
        return
    ctx.check(len(pop) == len(texts), "population/len", f"{len(pop)} vs {len(texts)}")
    for i in case["order"]:
        try:
            t = pop[i]
            got = ("ok", _tree_signature(t))
            path = os.path.abspath(t.source)
        except Exception as e:  # noqa
            got, path = ("raises", type(e).__name__), None
        if path is None:
            # which file member i is follows the population's own listing
            path = os.path.abspath(pop.trees.swcs[i]) if hasattr(pop.trees, "swcs") else None
            if path is None:
                ctx.ambiguous("refused-member-cannot-be-identified")
                continue
        want = alone.get(path)
        ctx.check(want is not None, "population/member-source-is-a-file-of-the-directory", f"{path}")
        if want[0] == "ok":
            ctx.check(got == want, "population/member-read-lazily-equals-the-file-read-on-its-own",
                      lambda: f"member {i} ({os.path.basename(path)}, written as {case['docs'][int(os.path.basename(path)[1:-4])]['enc']}, "
                              f"read with encoding={case['encoding']!r}, request order {case['order']}): {str(got)[:300]} vs {str(want)[:300]}")
        else:
            ctx.check(got[0] == "raises", "population/member-refused-on-its-own-is-refused-lazily",
                      lambda: f"member {i}: read on its own raises {want[1]}, through the population: {str(got)[:200]}")
    # explicit UTF-8 on ASCII / UTF-8 files: the lazily read member holds exactly the rows of its document
    if case["encoding"] == "utf-8":
        for i, item in enumerate(case["docs"]):
            if item["enc"] == "utf-16":
                continue
            path = os.path.join(d, f"m{i}.swc")
            st_, sig = alone[os.path.abspath(path)] if os.path.abspath(path) in alone else alone[path]
            ctx.check(st_ == "ok" and sig[0] == len(item["doc"]["rows"]), "population/one-node-per-data-row",
                      lambda: f"file {i}: {st_} {sig if st_ != 'ok' else sig[0]} vs {len(item['doc']['rows'])} rows")


# ----------------------------------------------------------------------------- encoding detection on long files
@st.composite
def detect_late_case(draw, tier):
    """A long file (70-140 KiB of pure-ASCII rows) whose only non-ASCII bytes come late - a trailing author comment in
    UTF-8 or Latin-1 - read with encoding='detect' from a path or a byte stream."""
    return {"rows": draw(st.integers(2300, 4500)), "enc": draw(st.sampled_from(["utf-8", "utf-8", "latin-1"])),
            "kind": draw(st.sampled_from(["path", "bytes"])), "where": draw(st.sampled_from(["end", "end", "three-quarters"])),
            "note": draw(st.sampled_from(["tracé par Zoë", "Größe geprüft", "señal débil", "naïve façade"]))}


def run_detect_late(case, ctx):
    from swcgeom.core.swc_utils import read_swc

    n = case["rows"]
    lines = [f"{i + 1} 3 {i * 0.5:.1f} {(i % 7) * 0.25:.2f} 0.0 1.0 {i if i else -1}" for i in range(n)]
    at = n if case["where"] == "end" else (3 * n) // 4
    lines.insert(at, "# " + case["note"])
    data = ("\n".join(lines) + "\n").encode(case["enc"])
    ctx.cls("late-bytes:" + case["enc"], "detect-from:" + case["kind"])
    ctx.nontrivial(True)
    if case["kind"] == "bytes":
        src = io.BytesIO(data)
    else:
        src = os.path.join(ctx.tmpdir, "late.swc")
        with open(src, "wb") as f:
            f.write(data)
    try:
        df, comments = read_swc(src, encoding="detect")
    except Exception:  # noqa - a loud refusal (the guessed encoding cannot decode the file) is within the statement
        ctx.cls("detect:refused")
        return
    # whatever encoding was guessed, nothing may have been dropped or patched over: every row is there and no byte was
    # replaced by the substitution character
    ctx.check(len(df) == n and df["id"].iloc[-1] == n - 1 + df["id"].iloc[0], "detect/one-node-per-data-row", f"{len(df)} rows for {n}")
    ctx.check(len(comments) == 1, "detect/comment-returned", lambda: f"{comments!r}")
    ctx.check("\ufffd" not in comments[0], "detect/undecodable-bytes-were-replaced-instead-of-raising",
              lambda: f"comment came back as {comments[0]!r} (file stored as {case['enc']})")
    if comments[0].strip() == case["note"]:
        ctx.cls("detect:comment-exact")


# ----------------------------------------------------------------------------- coverage-guided campaigns (thorough tier)
SWC_MODULES = ["swcgeom.core.swc_utils.io", "swcgeom.utils.file", "swcgeom.core.swc_utils.normalizer"]


def decode_raw(data):
    if len(data) < 2:
        return None
    return {"kind": ["str", "bytes", "path"][data[0] % 3], "text": ref_text.SWC_ALPHABET.decode(data[1:])}


def raw_seeds(tier):
    docs = [
        "# a comment\n1 1 0 0 0 1 -1\n2 3 1 0 0 1 1\n3 3 2 0.5 0 1 2\n",
        "1 1 0 0 0 1 -1\n2 1 2 0 0 1  1\n3 1 0 2 0 1  1\n",
        " 10 2 1.5e1 -2.5 +.5 1. -1 0.5\r\n\r\n 11 2 0 0 0 1 10 7\r\n#x\r\n",
    ]
    return [bytes([k]) + ref_text.SWC_ALPHABET.encode(d) for k, d in enumerate(docs)]


def run_raw(case, ctx):
    """Any text over the SWC alphabet, read with reset_index=False: the independent line-by-line reference decides
    whether every line is a data row / comment / blank (then the table is known), whether some line is definitely
    malformed (fewer than seven fields or a token no number reading accepts: must raise), or neither."""
    from swcgeom.core.swc_utils import read_swc

    text = case["text"]
    verdict, rows, comments = ref_text.swc_reference(text)
    ctx.cls("raw:" + verdict, "src:" + case["kind"])
    src, kw = _source(text, case["kind"], "utf-8", ctx, "raw.swc")
    try:
        with warnings.catch_warnings():
            warnings.simplefilter("ignore")
            df, got_comments = read_swc(src, reset_index=False, **kw)
    except Exception as e:  # noqa
        if verdict == "table" and ref_text.swc_table_is_closed(rows):
            ctx.fail("raw/valid-text-rejected", f"{type(e).__name__}: {e} on {text!r}")
        return
    if verdict == "malformed":
        ctx.nontrivial(len(rows) >= 1)
        ctx.fail("raw/malformed-line-accepted", f"a table of {len(df)} rows was returned for {text!r}")
    if verdict == "ambiguous":
        ctx.ambiguous("line-neither-grammatical-nor-definitely-malformed")
        return
    ctx.nontrivial(len(rows) >= 3)
    got = [(int(a), int(b), float(c), float(d), float(e), float(f), int(g)) for a, b, c, d, e, f, g in
           zip(df["id"], df["type"], df["x"], df["y"], df["z"], df["r"], df["pid"])]
    ctx.check(got == rows, "raw/one-node-per-data-row-in-file-order-with-the-row's-values",
              lambda: f"{got} vs {rows} for {text!r}")
    # trailing blanks (and the '\r' a text source keeps in front of '\n') are not part of what is compared
    ctx.check([c.rstrip("\r\n \t") for c in got_comments] == [c.rstrip(" \t") for c in comments if not c.startswith(" id type x y z r pid")],
              "raw/comments-in-order", lambda: f"{got_comments!r} vs {comments!r}")


SUBCHECKS = [
    Sub("valid", valid_case, run_valid, quick=900, thorough=6000, shards_quick=3,
        required={"src:str": 10, "src:bytes": 10, "src:path": 5, "feat:exponent": 20, "feat:long-spelling": 30, "read-after-a-failed-read": 150,
                  "feat:crlf": 5, "feat:unrequested-extra": 5, "requested-extras": 10,
                  "enc:utf-16": 2, "enc:detect": 2, "reset": 10, "family:raw": 10, "reset-with-arbitrary-ids": 8}),
    Sub("malformed", malformed_case, run_malformed, quick=900, thorough=6000, shards_quick=3,
        required={"inj:short-line": 20, "inj:bad-token": 20, "inj:bad-byte": 10,
                  "api:Population": 5, "api:Tree.from_swc": 10, "inj:hash-sign-inside-a-row": 10}),
    Sub("sorted", sorted_case, run_sorted, quick=600, thorough=4000, shards_quick=2,
        required={"unsorted": 20, "root-not-first": 20, "ids:sparse": 60, "ids:dense-shuffled": 40, "ids:dense-root-min-first": 16,
                  "ids:parents-first-ids-down": 29, "ids:parents-first-ids-scattered": 18}),
    Sub("population", population_case, run_population, quick=300, thorough=2500, shards_quick=2,
        required={"pop-enc:detect": 60, "files:ascii+utf-8": 20}),
    Sub("detect_late", detect_late_case, run_detect_late, quick=96, thorough=800, shards_quick=4,
        required={"late-bytes:utf-8": 10, "detect-from:path": 10}),
    # Atheris / libFuzzer, thorough tier (the line matcher is a C regular expression: little coverage gradient inside it,
    # the structured targets mainly add volume, the raw target explores line / encoding / option handling)
    Fuzz("fuzz_valid", run_valid, SWC_MODULES, mode="structured", strategy=valid_case, runs_thorough=2500, shards_thorough=3,
         max_len=8192),
    Fuzz("fuzz_malformed", run_malformed, SWC_MODULES, mode="structured", strategy=malformed_case, runs_thorough=2500,
         shards_thorough=3, max_len=8192),
    Fuzz("fuzz_raw", run_raw, SWC_MODULES, mode="raw", decode=decode_raw, seeds=raw_seeds, runs_thorough=60000,
         shards_thorough=6, max_len=400, required={"raw:table": 100, "raw:malformed": 200}),
]
