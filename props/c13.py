"""C13 — Closed-form volumes of the primitives equal the true geometric volume."""
import math

import numpy as np
from hypothesis import strategies as st

from vlib import models
from vlib.harness import Sub

PROPERTY = "C13"
RULE = (
    "Radii, heights and centre distances log-uniform in [0.02, 50] plus constructed special configurations "
    "(equal radii, externally tangent d = r1 + r2, internally tangent d = |r1 - r2|, nested, concentric d = 0, "
    "h = r, cylinder r1 = r2, widening and narrowing cones, cone completely inside the sphere, cap heights 0, r, 2r), "
    "a random unit axis of any direction and a centre offset up to 100; sphere-frustum pairs share centre and radius "
    "at either end of the frustum. Oracle: every solid is a solid of revolution about the line of centres, so its "
    "volume is pi * integral rho^2 dz with rho^2 the min / max of quadratics, integrated exactly piece by piece "
    "(breakpoints at interval ends, roots and crossings; cubic antiderivative). Tolerance 1e-5 * V + 1e-5 * L^2 "
    "(L = largest length; covers the library's own eps = 1e-6 fuzz). Non-trivial: two spheres that partially "
    "overlap, or a narrowing cone that leaves the sphere, or a frustum lower than the sphere radius."
)
ASSUMPTIONS = [
    "lengths below 0.02 are outside the domain (the library compares lengths with an absolute eps = 1e-6)",
    "float64 piecewise-cubic integration is exact up to rounding (relative 1e-12)",
]

LEN = st.floats(min_value=math.log(0.02), max_value=math.log(50.0), allow_nan=False).map(math.exp)


@st.composite
def pose(draw):
    v = [draw(st.integers(-8, 8)) for _ in range(3)]
    if not any(v):
        v = [0, 0, 1]
    if draw(st.integers(0, 5)) == 0:
        v = draw(st.sampled_from([[1, 0, 0], [0, 1, 0], [0, 0, 1], [0, 0, -1], [-1, 0, 0]]))
    c = [draw(st.floats(min_value=-100, max_value=100, allow_nan=False)) for _ in range(3)]
    if draw(st.integers(0, 3)) == 0:
        c = [0.0, 0.0, 0.0]
    return {"axis": v, "c": c}


@st.composite
def ss_strategy(draw, tier):
    r1, r2 = draw(LEN), draw(LEN)
    mode = draw(st.sampled_from(["partial", "partial", "partial", "ext-tangent", "int-tangent", "concentric",
                                 "nested", "disjoint", "equal-radii", "any", "near-coincident"]))
    f = draw(st.floats(min_value=0.001, max_value=0.999, allow_nan=False))
    if mode == "equal-radii":
        r2 = r1
        d = f * 2 * r1
    elif mode == "near-coincident":
        # almost the same sphere twice: radii that differ by a few ulps (or not at all) and a centre distance just
        # above |r1 - r2|, down to the rounding level of the radii (the closed form divides by d)
        r2 = r1 * (1.0 + draw(st.integers(-8, 8)) * 2.0 ** -draw(st.integers(30, 52)))
        d = abs(r1 - r2) + r1 * 10.0 ** -draw(st.integers(6, 17)) * (1 + f)
    elif mode == "partial":
        lo, hi = abs(r1 - r2), r1 + r2
        d = lo + f * (hi - lo)
    elif mode == "ext-tangent":
        d = r1 + r2
    elif mode == "int-tangent":
        d = abs(r1 - r2)
    elif mode == "concentric":
        d = 0.0
    elif mode == "nested":
        d = f * abs(r1 - r2)
    elif mode == "disjoint":
        d = (r1 + r2) * (1 + f)
    else:
        d = f * 1.5 * (r1 + r2)
    # the caller may build both spheres from one position buffer that it goes on updating in place
    return {"r1": r1, "r2": r2, "d": d, "mode": mode, "pose": draw(pose()), "reuse_buffer": draw(st.integers(0, 3)) == 0}


def _axis(p):
    a = np.asarray(p["axis"], dtype=np.float64)
    return a / np.linalg.norm(a), np.asarray(p["c"], dtype=np.float64)


def _cmp(ctx, clause, got, want, vscale, L, info):
    tol = 1e-5 * vscale + 1e-5 * L * L
    ctx.check(isinstance(got, (int, float, np.floating, np.integer)) and math.isfinite(got), clause + "/finite",
              lambda: f"got {got!r} ({info})")
    ctx.check(abs(float(got) - want) <= tol, clause,
              lambda: f"got {float(got)!r}, true volume {want!r}, difference {abs(float(got) - want):.3g} > tol {tol:.3g} ({info})")


def _with_flags(strategy):
    """Adds to every case: objects of user subclasses of the primitives (a `Soma(VolSphere)`), and a session in which the
    library has just refused a few volumes it has no closed form for (the caller caught the errors)."""
    def wrapped(tier):
        return st.tuples(strategy(tier), st.integers(0, 3), st.integers(0, 3)).map(
            lambda v: dict(v[0], subclass=v[1] == 0, refused_before=v[2] == 0))
    return wrapped


def _classes(case, ctx):
    from swcgeom.utils import VolFrustumCone, VolSphere

    Sph, Fru = VolSphere, VolFrustumCone
    if case.get("subclass"):
        class Soma(VolSphere):
            """a user's own kind of sphere"""

        class Segment(VolFrustumCone):
            """a user's own kind of frustum"""

        Sph, Fru = Soma, Segment
        ctx.cls("objects-of-user-subclasses")
    if case.get("refused_before"):
        for r in (150.0, 40.0, 150.0):
            try:
                VolSphere((0.0, 0.0, 0.0), r).union(VolFrustumCone((5.0 * r, 0.0, 0.0), 3.0, (5.0 * r + 20.0, 1.0, 0.0), 2.0)).get_volume()
            except Exception:  # noqa - no closed form for a sphere and a frustum that do not share an end: refused (or sampled)
                pass
        ctx.cls("after-refused-volume-requests")
    return Sph, Fru


def run_ss(case, ctx):
    from swcgeom.utils import VolSphere

    VolSphere, _ = _classes(case, ctx)

    r1, r2, d = case["r1"], case["r2"], case["d"]
    u, c = _axis(case["pose"])
    lo, hi = abs(r1 - r2), r1 + r2
    partial = lo * (1 + 1e-9) < d < hi * (1 - 1e-9)
    ctx.cls("ss:" + case["mode"], "ss:partial-overlap" if partial else "ss:not-partial")
    ctx.nontrivial(partial)
    info = f"r1={r1!r} r2={r2!r} d={d!r} axis={case['pose']['axis']} c={case['pose']['c']}"
    if case.get("reuse_buffer"):
        ctx.cls("centres-from-one-reused-buffer")
        buf = c.copy()
        s1 = VolSphere(buf, r1)
        buf += u * d  # in place: the first sphere was built from the buffer's earlier content
        s2 = VolSphere(buf, r2)
        buf += 1000.0  # and the buffer lives on
    else:
        s1 = VolSphere(c, r1)
        s2 = VolSphere(c + u * d, r2)
    prof = [models.rev_sphere(0.0, r1), models.rev_sphere(d, r2)]
    L = max(r1, r2, d)
    v1 = 4.0 / 3.0 * math.pi * r1 ** 3
    v2 = 4.0 / 3.0 * math.pi * r2 ** 3
    _cmp(ctx, "sphere/volume", ctx.lib("sphere/get_volume", s1.get_volume), models.revolution_volume(prof[:1], "max"), v1, r1, info)
    want_i = models.revolution_volume(prof, "min")
    want_u = models.revolution_volume(prof, "max")
    _cmp(ctx, "sphere-sphere/intersection", ctx.lib("sphere-sphere/intersect", lambda: s1.intersect(s2).get_volume()),
         want_i, min(v1, v2), L, info)
    _cmp(ctx, "sphere-sphere/intersection-symmetric", ctx.lib("sphere-sphere/intersect", lambda: s2.intersect(s1).get_volume()),
         want_i, min(v1, v2), L, info)
    _cmp(ctx, "sphere-sphere/union", ctx.lib("sphere-sphere/union", lambda: s1.union(s2).get_volume()),
         want_u, v1 + v2, L, info)
    _cmp(ctx, "sphere-sphere/union-symmetric", ctx.lib("sphere-sphere/union", lambda: s2.union(s1).get_volume()),
         want_u, v1 + v2, L, info)


@st.composite
def cap_strategy(draw, tier):
    r = draw(LEN)
    k = draw(st.integers(0, 5))
    h = [0.0, r, 2 * r][k] if k < 3 else draw(st.floats(min_value=0.0, max_value=2.0, allow_nan=False)) * r
    return {"r": r, "h": h, "r2": draw(LEN), "height": draw(LEN), "pose": draw(pose()),
            "cyl": draw(st.integers(0, 4)) == 0}


def run_cap(case, ctx):
    from swcgeom.utils import VolFrustumCone, VolSphere

    r, h = case["r"], case["h"]
    u, c = _axis(case["pose"])
    info = f"r={r!r} h={h!r}"
    ctx.cls("cap:h=0" if h == 0 else "cap:h=r" if h == r else "cap:h=2r" if h == 2 * r else "cap:general")
    ctx.nontrivial(0 < h < 2 * r and h != r)
    s = VolSphere(c, r)
    a, b, cc, lo, hi = models.rev_sphere(0.0, r)
    want = models.revolution_volume([(a, b, cc, r - h, r)], "max") if h > 0 else 0.0
    _cmp(ctx, "sphere/cap", ctx.lib("sphere/cap", s.get_volume_spherical_cap, h), want, 4 / 3 * math.pi * r ** 3, r, info)
    _cmp(ctx, "sphere/cap-static", ctx.lib("sphere/cap", VolSphere.calc_volume_spherical_cap, r, h), want,
         4 / 3 * math.pi * r ** 3, r, info)
    r1, r2, H = r, (r if case["cyl"] else case["r2"]), case["height"]
    ctx.cls("frustum:cylinder" if r1 == r2 else "frustum:tapered")
    fc = VolFrustumCone(c, r1, c + u * H, r2)
    want = models.revolution_volume([models.rev_frustum(0.0, r1, H, r2)], "max")
    _cmp(ctx, "frustum/volume", ctx.lib("frustum/get_volume", fc.get_volume), want, want, max(r1, r2, H),
         f"r1={r1!r} r2={r2!r} h={H!r}")
    hh = ctx.lib("frustum/height", fc.height)
    ctx.check(abs(hh - H) <= 1e-9 * (1 + H + float(np.abs(c).max())), "frustum/height", f"{hh} vs {H}")


@st.composite
def sf_strategy(draw, tier):
    r1 = draw(LEN)
    mode = draw(st.sampled_from(["any", "any", "any", "cylinder", "h=r", "widening", "narrowing-leaves", "narrowing-inside",
                                 "low", "high", "needle"]))
    r2, h = draw(LEN), draw(LEN)
    f = draw(st.floats(min_value=0.01, max_value=0.99, allow_nan=False))
    if mode == "cylinder":
        r2 = r1
    elif mode == "h=r":
        h = r1
    elif mode == "widening":
        r2 = r1 * (1 + 3 * f)
    elif mode == "narrowing-leaves":
        r2 = r1 * f
        h = r1 * (1 + 2 * f)
    elif mode == "narrowing-inside":
        h = r1 * f * 0.9
        r2 = max(0.02, r1 * 0.3 * math.sqrt(max(1 - (h / r1) ** 2, 0.0)))
    elif mode == "low":
        h = max(0.02, r1 * f * 0.5)
    elif mode == "high":
        h = r1 * (1 + 5 * f)
    elif mode == "needle":
        r2 = 0.02
    return {"r1": r1, "r2": r2, "h": h, "end": draw(st.sampled_from(["c1", "c2"])), "mode": mode, "pose": draw(pose())}


def run_sf(case, ctx):
    VolSphere, VolFrustumCone = _classes(case, ctx)

    r1, r2, h, end = case["r1"], case["r2"], case["h"], case["end"]
    u, c = _axis(case["pose"])
    # the sphere sits on the frustum end with radius r1; `end` says which constructor slot that end takes
    if end == "c1":
        fc = VolFrustumCone(c, r1, c + u * h, r2)
    else:
        fc = VolFrustumCone(c + u * h, r2, c, r1)
    s = VolSphere(c, r1)
    prof = [models.rev_sphere(0.0, r1), models.rev_frustum(0.0, r1, h, r2)]
    want_i = models.revolution_volume(prof, "min")
    want_u = models.revolution_volume(prof, "max")
    vs = 4.0 / 3.0 * math.pi * r1 ** 3
    vf = math.pi * h * (r1 * r1 + r1 * r2 + r2 * r2) / 3.0
    L = max(r1, r2, h)
    # does the cone's lateral surface leave the sphere before its far end?
    far_inside = h * h + r2 * r2 < r1 * r1
    leaves = r2 < r1 and not far_inside
    ctx.cls("sf:" + case["mode"], "sf:end-" + end, "sf:narrowing" if r2 < r1 else "sf:widening-or-cylinder",
            "sf:cone-inside-sphere" if far_inside else "sf:cone-leaves-sphere" if leaves else "sf:wide",
            "sf:h<r" if h < r1 else "sf:h>=r")
    ctx.nontrivial(leaves or h < r1)
    info = f"r_sphere=r_end={r1!r} r_other={r2!r} h={h!r} end={end} axis={case['pose']['axis']} c={case['pose']['c']}"
    _cmp(ctx, "sphere-frustum/intersection", ctx.lib("sphere-frustum/intersect", lambda: s.intersect(fc).get_volume()),
         want_i, min(vs / 2, vf), L, info)
    _cmp(ctx, "sphere-frustum/union", ctx.lib("sphere-frustum/union", lambda: s.union(fc).get_volume()),
         want_u, vs + vf, L, info)
    _cmp(ctx, "frustum-sphere/union", ctx.lib("frustum-sphere/union", lambda: fc.union(s).get_volume()),
         want_u, vs + vf, L, info)


SUBCHECKS = [
    Sub("sphere_sphere", _with_flags(ss_strategy), run_ss, quick=8000, thorough=120000, shards_quick=4,
        required={"ss:partial-overlap": 500, "ss:near-coincident": 50, "centres-from-one-reused-buffer": 300, "ss:ext-tangent": 50, "ss:int-tangent": 50, "ss:concentric": 50,
                  "ss:nested": 50, "ss:disjoint": 50, "ss:equal-radii": 50, "objects-of-user-subclasses": 500}),
    Sub("cap_frustum", cap_strategy, run_cap, quick=3000, thorough=40000, shards_quick=2,
        required={"cap:h=0": 30, "cap:h=r": 30, "cap:h=2r": 30, "cap:general": 300, "frustum:cylinder": 50}),
    Sub("sphere_frustum", _with_flags(sf_strategy), run_sf, quick=12000, thorough=200000, shards_quick=4,
        required={"sf:end-c1": 500, "sf:end-c2": 500, "sf:cone-inside-sphere": 100, "sf:cone-leaves-sphere": 300,
                  "sf:wide": 300, "sf:h<r": 300, "sf:h>=r": 300, "sf:cylinder": 50, "sf:h=r": 50,
                  "objects-of-user-subclasses": 1000, "after-refused-volume-requests": 1000}),
]
