"""C12 — Geometric transforms apply the stated affine map about the stated centre."""
import math

import numpy as np
from hypothesis import strategies as st

from vlib import gen_tree, models
from vlib.harness import Sub

PROPERTY = "C12"
RULE = (
    "Tagged trees (1-25 nodes quick / 120 thorough, lattice and general float32 coordinates up to 1e3) whose "
    "root is moved at least one unit away from the origin; a transform drawn from Translate, TranslateOrigin, "
    "Scale (per-axis non-zero factors of either sign), Rotate (unit axis of any direction), RotateX/Y/Z, a "
    "generic invertible AffineTransform (A = L*U constructed, plus offset), angles in (-2pi, 2pi) incl. "
    "multiples of pi/2, centre in {origin, root, soma}; called through the instance and the classmethod "
    "form. Oracle: float64 reference map c + M(x - c) + b with M from Rodrigues' formula (right-handed) / "
    "diag(s) / A, tolerance 1e-4 * (1 + max|x|) * max(1, |M|) + |b|*1e-6; centre fixed; pairwise distances "
    "kept by rotations; inverse transform restores the coordinates; id, pid, type, r and extra columns "
    "bit-identical; input untouched. Matrix builders (rotate3d, rotate3d_x/y/z, scale3d, translate3d) "
    "against the reference 4x4 matrices. Non-trivial: root >= 1 from the origin, >= 3 non-collinear nodes, "
    "angle (for rotations) not within 1e-3 of a multiple of pi/2."
)
ASSUMPTIONS = [
    "rotation axes are unit vectors (the library documents `n` as a unit vector)",
    "float32 storage: results are compared with a float64 reference within 1e-4 relative to the coordinate scale "
    "(calibrated worst case 1e-6)",
]

KINDS = ["translate", "translate_origin", "scale", "rotate", "rotate_x", "rotate_y", "rotate_z", "affine"]


@st.composite
def axis_strategy(draw):
    k = draw(st.integers(0, 5))
    if k == 0:
        v = draw(st.sampled_from([[1, 0, 0], [0, 1, 0], [0, 0, 1], [-1, 0, 0], [0, 0, -1]]))
    else:
        v = [draw(st.integers(-8, 8)) for _ in range(3)]
        if not any(v):
            v = [1, 2, 2]
    return v


def angle_strategy():
    return st.one_of(
        st.floats(min_value=-6.28, max_value=6.28, allow_nan=False),
        st.sampled_from([math.pi / 2, -math.pi / 2, math.pi, math.pi / 3, 2 * math.pi / 3, 1e-3, 0.0]),
    )


@st.composite
def case_strategy(draw, tier):
    max_n = 25 if tier == "quick" else 120
    k = draw(st.integers(0, 11))
    if k == 0:  # a large tree now and then (size-dependent code paths)
        t = {"bulk": [draw(st.integers(0, 2 ** 31)), draw(st.integers(61, 300 if tier == "quick" else 2000)),
                      draw(st.sampled_from(["uniform", "chain", "binary"])), draw(st.sampled_from(["float", "lattice"]))]}
    else:
        t = draw(gen_tree.tree_case(min_n=1, max_n=max_n, regimes=["lattice", "float", "coincident"], permute=None))
        if k <= 3:  # root not at position 0 (what redirect_tree(sort=False) produces)
            t = gen_tree.swap_root(t, draw(st.integers(1, 50)))
    kind = draw(st.sampled_from(KINDS))
    case = {"tree": t, "kind": kind, "center": draw(st.sampled_from(["origin", "root", "root", "soma"])),
            "via": draw(st.sampled_from(["instance", "classmethod"])),
            "shift_root": draw(st.booleans()) or True,
            # the transform object has already been applied to another tree that came from the same file
            "reused": draw(st.integers(0, 2)) == 0,
            # the tree keeps its coordinates, radii and types under other column names (a names table of its own)
            "renamed": draw(st.integers(0, 5)) == 0}
    fl = st.floats(min_value=-100, max_value=100, allow_nan=False, width=32)
    if kind == "translate":
        case["t"] = [draw(fl), draw(fl), draw(fl)]
    elif kind == "scale":
        sf = st.one_of(st.floats(min_value=0.2, max_value=5.0, allow_nan=False),
                       st.sampled_from([1.0, 2.0, 0.5, -1.0]))
        case["s"] = [draw(sf) * draw(st.sampled_from([1, 1, 1, -1])) for _ in range(3)]
    elif kind == "rotate":
        case["axis"] = draw(axis_strategy())
        case["theta"] = draw(angle_strategy())
    elif kind in ("rotate_x", "rotate_y", "rotate_z"):
        case["theta"] = draw(angle_strategy())
    elif kind == "affine":
        q = st.integers(-8, 8).map(lambda v: v / 4.0)
        d = st.sampled_from([0.5, 1.0, 2.0, -1.0, 1.5, -0.5])
        case["L"] = [draw(q), draw(q), draw(q)]
        case["U"] = [draw(q), draw(q), draw(q)]
        case["D"] = [draw(d), draw(d), draw(d)]
        case["b"] = [draw(fl), draw(fl), draw(fl)]
        # the same affine map written with another homogeneous scale: the whole 4x4 matrix times a constant (so its
        # bottom-right entry is not 1; a uniform scale written as diag(1, 1, 1, 1/s) is the special case A = I)
        case["hw"] = draw(st.sampled_from([1.0, 1.0, 2.0, 0.5, 4.0, 0.25, -2.0]))
    return case


def _root_shift(t):
    """Move the whole tree so that the root is at least one unit from the origin (construction, not filtering)."""
    r = t["parents"].index(-1)
    d = math.sqrt(t["x"][r] ** 2 + t["y"][r] ** 2 + t["z"][r] ** 2)
    if d >= 1.0:
        return t
    t = dict(t)
    t["x"] = [gen_tree.f32(v + 2.0) for v in t["x"]]
    t["y"] = [gen_tree.f32(v - 3.0) for v in t["y"]]
    t["z"] = [gen_tree.f32(v + 5.0) for v in t["z"]]
    return t


def _unit(v):
    a = np.asarray(v, dtype=np.float64)
    return a / np.linalg.norm(a)


def _noncollinear(X):
    if len(X) < 3:
        return False
    d = X[1:] - X[0]
    return np.linalg.matrix_rank(d, tol=1e-6 * (1 + np.abs(X).max())) >= 2


def _make(case):
    """Returns (callable on tree, M (3x3 float64), b (3,), uses_centre, inverse maker or None)."""
    from swcgeom import transforms as T

    kind, center, via = case["kind"], case["center"], case["via"]
    kw = {"center": center}
    if kind == "translate":
        tv = case["t"]
        f = T.Translate(*tv) if via == "instance" else (lambda x: T.Translate.transform(x, *tv))
        inv = lambda x: T.Translate(-tv[0], -tv[1], -tv[2])(x)  # noqa
        return f, np.eye(3), np.array(tv, dtype=np.float64), False, inv
    if kind == "translate_origin":
        f = T.TranslateOrigin() if via == "instance" else (lambda x: T.TranslateOrigin.transform(x))
        return f, np.eye(3), None, False, None
    if kind == "scale":
        s = case["s"]
        f = T.Scale(*s, **kw) if via == "instance" else (lambda x: T.Scale.transform(x, *s, **kw))
        inv = lambda x: T.Scale(1 / s[0], 1 / s[1], 1 / s[2], **kw)(x)  # noqa
        return f, np.diag(np.array(s, dtype=np.float64)), np.zeros(3), True, inv
    if kind == "rotate":
        ax, th = _unit(case["axis"]), case["theta"]
        f = T.Rotate(ax, th, **kw) if via == "instance" else (lambda x: T.Rotate.transform(x, ax, th, **kw))
        inv = lambda x: T.Rotate(ax, -th, **kw)(x)  # noqa
        return f, models.rodrigues(ax, th), np.zeros(3), True, inv
    if kind in ("rotate_x", "rotate_y", "rotate_z"):
        cls = {"rotate_x": T.RotateX, "rotate_y": T.RotateY, "rotate_z": T.RotateZ}[kind]
        ax = {"rotate_x": [1, 0, 0], "rotate_y": [0, 1, 0], "rotate_z": [0, 0, 1]}[kind]
        th = case["theta"]
        f = cls(th, **kw) if via == "instance" else (lambda x: cls.transform(x, th, **kw))
        inv = lambda x: cls(-th, **kw)(x)  # noqa
        return f, models.rodrigues(ax, th), np.zeros(3), True, inv
    if kind == "affine":
        L = np.eye(3)
        L[1, 0], L[2, 0], L[2, 1] = case["L"]
        U = np.diag(np.array(case["D"], dtype=np.float64))
        U[0, 1], U[0, 2], U[1, 2] = case["U"]
        A = L @ U
        b = np.array(case["b"], dtype=np.float64)
        tm = np.eye(4, dtype=np.float32)
        tm[:3, :3] = A
        tm[:3, 3] = b
        hw = float(case.get("hw", 1.0))
        tm = (tm * np.float32(hw)).astype(np.float32)
        f = T.AffineTransform(tm, **kw)
        Ai = np.linalg.inv(A)
        tmi = np.eye(4, dtype=np.float32)
        tmi[:3, :3] = Ai
        # y = c + A(x-c) + b.  About the origin (c = 0): x = Ai y - Ai b.  About the root the inverse is
        # applied to the *moved* tree, whose root sits at c' = c + b: x = c' + Ai(y - c') - b.
        tmi[:3, 3] = (-Ai @ b) if center == "origin" else -b
        tmi = (tmi * np.float32(1.0 / hw)).astype(np.float32)
        inv = lambda x: T.AffineTransform(tmi, **kw)(x)  # noqa
        return f, A, b, True, inv
    raise AssertionError(kind)


RENAMED = {"x": "px", "y": "py", "z": "pz", "r": "radius", "type": "kind"}


def _build(t, renamed, source=""):
    if not renamed:
        return gen_tree.build_tree(t, source=source)
    from swcgeom.core import Tree
    from swcgeom.core.swc_utils import SWCNames

    n = len(t["parents"])
    return Tree(n, names=SWCNames(**RENAMED), source=source, id=np.arange(n, dtype=np.int32), pid=np.array(t["parents"], dtype=np.int32),
                kind=np.array(t["type"], dtype=np.int32), px=np.array(t["x"], dtype=np.float32), py=np.array(t["y"], dtype=np.float32),
                pz=np.array(t["z"], dtype=np.float32), radius=np.array(t["r"], dtype=np.float32),
                tag=np.array(t["tag"], dtype=np.int32), w=np.array(t["w"], dtype=np.float32))


def run_case(case, ctx):
    t = _root_shift(gen_tree.materialize(case["tree"]))
    kind, center = case["kind"], case["center"]
    renamed = bool(case.get("renamed"))
    col_of = (lambda c: RENAMED.get(c, c)) if renamed else (lambda c: c)
    if renamed:
        ctx.cls("tree-with-renamed-columns")
    tree = _build(t, renamed)
    n = len(tree)
    X = models.xyz64(t)
    root = t["parents"].index(-1)
    before = {k: v.copy() for k, v in tree.ndata.items()}
    f, M, b, uses_centre, inv = _make(case)
    c = X[root] if (uses_centre and center in ("root", "soma")) else np.zeros(3)
    if kind == "translate_origin":
        want = X - X[root]
        bnorm = float(np.abs(X[root]).max())
    else:
        want = c + (X - c) @ M.T + b
        bnorm = float(np.abs(b).max())
    mnorm = max(1.0, float(np.abs(M).sum(axis=1).max()))
    scale = (1.0 + float(np.abs(X).max())) * mnorm + bnorm
    tol = 1e-4 * scale

    is_rot = kind.startswith("rotate")
    th = case.get("theta", 0.0)
    generic_angle = (not is_rot) or abs(math.sin(2 * th)) > 2e-3
    if kind == "affine" and case.get("hw", 1.0) != 1.0:
        ctx.cls("affine-matrix-with-homogeneous-scale")
    ctx.cls("kind:" + kind, "center:" + center if uses_centre else "center:n/a", "via:" + case["via"],
            "regime:" + t["regime"], "root-at-0" if root == 0 else "root-not-at-0", "n>60" if n > 60 else "n<=60")
    if is_rot and not generic_angle:
        ctx.cls("angle:multiple-of-pi/2")
    ctx.nontrivial(n >= 3 and _noncollinear(X) and generic_angle and float(np.linalg.norm(X[root])) >= 1.0)

    if case.get("reused") and case["via"] == "instance":
        # one transform object, two trees with the same `source` (say, a neuron and a shifted copy of it)
        tree = _build(t, renamed, source="shared.swc")
        before = {k: v.copy() for k, v in tree.ndata.items()}
        t_dec = dict(t, x=[gen_tree.f32(v + 7.0) for v in t["x"]], y=[gen_tree.f32(v - 3.0) for v in t["y"]],
                     z=[gen_tree.f32(v + 5.0) for v in t["z"]])
        earlier = ctx.lib(f"{kind}/apply", f, _build(t_dec, renamed, source="shared.swc"))
        earlier_snap = {k: v.copy() for k, v in earlier.ndata.items()}
        ctx.cls("transform-object-reused-on-a-tree-of-the-same-source")
    out = ctx.lib(f"{kind}/apply", f, tree)
    if case.get("reused") and case["via"] == "instance":
        # the result of the earlier call is still in use: the next call of the same object neither changes it nor shares
        # storage with it
        for k, v in earlier_snap.items():
            ctx.check(np.array_equal(earlier.ndata[k], v, equal_nan=True), f"{kind}/earlier-result-unchanged-by-the-next-call", f"column {k}")
            ctx.check(not any(np.shares_memory(earlier.ndata[k], vo) for vo in out.ndata.values()),
                      f"{kind}/results-of-two-calls-share-no-storage", f"column {k}")

    for k, v in before.items():
        ctx.check(np.array_equal(tree.ndata[k], v), f"{kind}/input-unchanged", f"column {k} modified")
    ctx.check(len(out) == n, f"{kind}/node-count", f"{len(out)} != {n}")
    ctx.check(set(out.ndata) == set(before), f"{kind}/columns-kept", lambda: f"{sorted(out.ndata)} vs {sorted(before)}")
    for col in ("id", "pid", "type", "r", "tag", "w"):
        ctx.check(np.array_equal(out.ndata[col_of(col)], before[col_of(col)]), f"{kind}/topology-types-radii-extras-unchanged",
                  f"column {col} changed")
    got = np.stack([out.x(), out.y(), out.z()], axis=1).astype(np.float64)
    err = float(np.abs(got - want).max())
    label = f"{kind}/center={center}" if uses_centre else kind
    ctx.check(err <= tol, f"{label}/every-node-moved-by-the-stated-map",
              lambda: f"max error {err:.3g} > tol {tol:.3g}; root at {X[root].tolist()}, "
                      f"first node got {got[0].tolist()} expected {want[0].tolist()}; case {dict((k, v) for k, v in case.items() if k != 'tree')}")
    if uses_centre and center in ("root", "soma") and b is not None and not np.any(b):
        ctx.check(float(np.abs(got[root] - X[root]).max()) <= tol, f"{label}/centre-stays-fixed",
                  lambda: f"root moved from {X[root].tolist()} to {got[root].tolist()}")
    if kind == "translate_origin":
        ctx.check(float(np.abs(got[root]).max()) <= 1e-6 * scale, "translate_origin/root-at-origin",
                  lambda: f"root at {got[root].tolist()}")
    if is_rot and n >= 2:
        i, j = np.triu_indices(n, 1)
        if len(i) > 400:
            sel = np.linspace(0, len(i) - 1, 400).astype(int)
            i, j = i[sel], j[sel]
        d0 = np.linalg.norm(X[i] - X[j], axis=1)
        d1 = np.linalg.norm(got[i] - got[j], axis=1)
        ctx.check(float(np.abs(d0 - d1).max()) <= 2 * tol, f"{kind}/distances-preserved",
                  lambda: f"max change {float(np.abs(d0 - d1).max()):.3g}")
    if inv is not None:
        back = ctx.lib(f"{kind}/inverse", inv, out)
        gb = np.stack([back.x(), back.y(), back.z()], axis=1).astype(np.float64)
        cond = mnorm * max(1.0, float(np.abs(np.linalg.inv(M)).sum(axis=1).max()))
        tol_b = 1e-4 * ((1.0 + float(np.abs(X).max())) * cond + bnorm * cond)
        ctx.check(float(np.abs(gb - X).max()) <= tol_b, f"{label}/inverse-restores",
                  lambda: f"max error {float(np.abs(gb - X).max()):.3g} > {tol_b:.3g}")


# ----------------------------------------------------------------------------- pipelines of transforms
@st.composite
def pipeline_strategy(draw, tier):
    base = draw(case_strategy(tier))
    stages = [{k: v for k, v in base.items() if k != "tree"}]
    for _ in range(draw(st.integers(1, 2))):
        more = draw(case_strategy("quick"))
        stages.append({k: v for k, v in more.items() if k != "tree"})
    if draw(st.booleans()):
        # the combination a pre-multiplying optimiser has to get right: a stage about the root that moves the root,
        # followed by another stage about the root
        stages[0]["center"] = stages[1]["center"] = "root"
    for st_ in stages:
        st_["via"] = "instance"
    return {"tree": base["tree"], "stages": stages}


def run_pipeline(case, ctx):
    """Transforms(a, b[, c])(tree) moves every node by the composition of the stated maps, each about the centre as it
    lies when that stage is reached."""
    from swcgeom import transforms as T

    t = _root_shift(gen_tree.materialize(case["tree"]))
    tree = gen_tree.build_tree(t)
    n = len(tree)
    X = models.xyz64(t)
    root = t["parents"].index(-1)
    before = {k: v.copy() for k, v in tree.ndata.items()}
    objs = []
    want = X.copy()
    amp = 1.0 + float(np.abs(X).max())
    moves_root_then_root_centred = False
    root_moved = False
    for stg in case["stages"]:
        f, M, b, uses_centre, _inv = _make(stg)
        objs.append(f)
        about_root = uses_centre and stg["center"] in ("root", "soma")
        c = want[root] if about_root else np.zeros(3)
        if about_root and root_moved:
            moves_root_then_root_centred = True
        old_root = want[root].copy()
        if stg["kind"] == "translate_origin":
            want = want - want[root]
        else:
            want = c + (want - c) @ M.T + b
            amp = amp * max(1.0, float(np.abs(M).sum(axis=1).max())) + float(np.abs(b).max())
        amp = max(amp, 1.0 + float(np.abs(want).max()))
        if float(np.abs(want[root] - old_root).max()) > 1e-3:
            root_moved = True
    kinds = "+".join(stg["kind"] for stg in case["stages"])
    ctx.cls(f"stages:{len(objs)}")
    if moves_root_then_root_centred:
        ctx.cls("root-centred-stage-after-the-root-was-moved")
    ctx.nontrivial(n >= 3 and _noncollinear(X) and moves_root_then_root_centred)
    pipe = T.Transforms(*objs)
    out = ctx.lib("Transforms/apply", pipe, tree)
    for k, v in before.items():
        ctx.check(np.array_equal(tree.ndata[k], v), "pipeline/input-unchanged", f"column {k} modified")
    for col in ("id", "pid", "type", "r", "tag", "w"):
        ctx.check(np.array_equal(out.ndata[col], before[col]), "pipeline/topology-types-radii-extras-unchanged", f"column {col} changed")
    got = np.stack([out.x(), out.y(), out.z()], axis=1).astype(np.float64)
    tol = 2e-4 * amp * len(objs)
    err = float(np.abs(got - want).max())
    ctx.check(err <= tol, "pipeline/every-node-moved-by-the-composed-map",
              lambda: f"{kinds}: max error {err:.3g} > tol {tol:.3g}; root got {got[root].tolist()} expected {want[root].tolist()}; "
                      f"stages {case['stages']}")
    # the same pipeline object once more, and the stages applied by hand
    again = ctx.lib("Transforms/apply", pipe, tree)
    ga = np.stack([again.x(), again.y(), again.z()], axis=1).astype(np.float64)
    ctx.check(float(np.abs(ga - got).max()) <= 1e-6 * amp, "pipeline/second-call-gives-the-same-result", f"{kinds}")
    seq = tree
    for o in objs:
        seq = o(seq)
    gs = np.stack([seq.x(), seq.y(), seq.z()], axis=1).astype(np.float64)
    ctx.check(float(np.abs(gs - got).max()) <= tol, "pipeline/equals-the-stages-applied-one-by-one",
              lambda: f"{kinds}: max difference {float(np.abs(gs - got).max()):.3g}")


# ----------------------------------------------------------------------------- matrix builders
@st.composite
def builder_strategy(draw, tier):
    return {"axis": draw(axis_strategy()), "theta": draw(angle_strategy()),
            "s": [draw(st.floats(min_value=-5, max_value=5, allow_nan=False, width=32)) for _ in range(3)],
            "t": [draw(st.floats(min_value=-100, max_value=100, allow_nan=False, width=32)) for _ in range(3)]}


def run_builder(case, ctx):
    from swcgeom.utils import rotate3d, rotate3d_x, rotate3d_y, rotate3d_z, scale3d, translate3d

    ax, th, s, tv = _unit(case["axis"]), case["theta"], case["s"], case["t"]
    on_axis = sorted(abs(v) for v in case["axis"])[:2] == [0, 0]
    ctx.cls("axis:coordinate" if on_axis else "axis:general")
    ctx.nontrivial(not on_axis and abs(math.sin(2 * th)) > 2e-3)

    def ref4(R):
        m = np.eye(4)
        m[:3, :3] = R
        return m

    def cmp(name, got, want, tol=2e-6):
        got = np.asarray(got)
        ctx.check(got.shape == (4, 4), f"{name}/shape", f"{got.shape}")
        e = float(np.abs(got.astype(np.float64) - want).max())
        ctx.check(e <= tol, f"{name}/matrix", lambda: f"max error {e:.3g}\n got {got.tolist()}\n want {want.tolist()}")

    cmp("rotate3d", ctx.lib("rotate3d", rotate3d, ax, th), ref4(models.rodrigues(ax, th)))
    cmp("rotate3d_x", ctx.lib("rotate3d_x", rotate3d_x, th), ref4(models.rodrigues([1, 0, 0], th)))
    cmp("rotate3d_y", ctx.lib("rotate3d_y", rotate3d_y, th), ref4(models.rodrigues([0, 1, 0], th)))
    cmp("rotate3d_z", ctx.lib("rotate3d_z", rotate3d_z, th), ref4(models.rodrigues([0, 0, 1], th)))
    for name, fn, a in (("x", rotate3d_x, [1.0, 0, 0]), ("y", rotate3d_y, [0, 1.0, 0]), ("z", rotate3d_z, [0, 0, 1.0])):
        g = ctx.lib("rotate3d", rotate3d, np.array(a), th)
        e = float(np.abs(np.asarray(g, dtype=np.float64) - np.asarray(fn(th), dtype=np.float64)).max())
        ctx.check(e <= 2e-6, f"rotate3d/agrees-with-rotate3d_{name}", f"max difference {e:.3g}")
    # right-handed sense: a quarter turn about z sends +x to +y, about x sends +y to +z, about y sends +z to +x
    q = math.pi / 2
    for name, fn, src, dst in (("z", rotate3d_z, [1, 0, 0, 1], [0, 1, 0, 1]), ("x", rotate3d_x, [0, 1, 0, 1], [0, 0, 1, 1]),
                               ("y", rotate3d_y, [0, 0, 1, 1], [1, 0, 0, 1])):
        v = np.asarray(fn(q), dtype=np.float64) @ np.array(src, dtype=np.float64)
        ctx.check(float(np.abs(v - np.array(dst)).max()) <= 1e-6, f"rotate3d_{name}/right-handed-quarter-turn", f"{v.tolist()}")
    S = np.diag([float(np.float32(v)) for v in s] + [1.0])
    cmp("scale3d", ctx.lib("scale3d", scale3d, *s), S, tol=0.0)
    Tm = np.eye(4)
    Tm[:3, 3] = [float(np.float32(v)) for v in tv]
    cmp("translate3d", ctx.lib("translate3d", translate3d, *tv), Tm, tol=0.0)


SUBCHECKS = [
    Sub("apply", case_strategy, run_case, quick=2400, thorough=32000, shards_quick=4,
        required=dict({f"kind:{k}": 100 for k in KINDS}, **{"center:root": 200, "center:origin": 200,
                                                            "center:soma": 100, "via:classmethod": 300,
                                                            "angle:multiple-of-pi/2": 20, "root-not-at-0": 200, "n>60": 60,
                                                            "transform-object-reused-on-a-tree-of-the-same-source": 150,
                                                            "affine-matrix-with-homogeneous-scale": 60, "tree-with-renamed-columns": 200})),
    Sub("pipeline", pipeline_strategy, run_pipeline, quick=800, thorough=8000, shards_quick=4,
        required={"root-centred-stage-after-the-root-was-moved": 79, "stages:3": 100}),
    Sub("builders", builder_strategy, run_builder, quick=600, thorough=8000, shards_quick=2,
        required={"axis:general": 200, "axis:coordinate": 30}),
]
