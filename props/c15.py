"""C15 — Neurolucida ASC conversion is faithful to the document."""
import io
import os

import numpy as np
from hypothesis import strategies as st

from vlib import gen_asc, ref_text
from vlib.harness import Fuzz, Sub

PROPERTY = "C15"
RULE = (
    "Documents generated from the supported single-tree ASC grammar: ( colour* (Axon|Dendrite) branch ), "
    "branch = point (point | colour | comment)* [split], split = ( alt (| alt)* ), alt = empty | branch; empty "
    "alternatives in any position (first, middle, last, all), 1-4 alternatives, nesting to depth 12 (quick) / 150 "
    "(thorough) with the deep spine in the first, middle or last alternative, branches of up to 1500 (quick) / 5000 "
    "(thorough) points, numbers spelled with signs, leading / trailing zeros, bare points and exponents, label case "
    "varied, arbitrary runs of space / tab / newline between tokens and none where the lexer needs none, comments after any point and between any two structural tokens of the body (after a split's "
    "opening bracket, around '|', before a closing bracket), colours in the body, colours before the label. The generator emits the document and the expected node table "
    "from its own AST. Oracle: from_stream / convert(fname) / NeurolucidaAscToSwc()(fname) give exactly one node per "
    "point in document order with float32 coordinates and radius of the token's rational value, type 2 / 3 by label, "
    "parent = previous point of the branch or the last point before the enclosing split; stripping colours and "
    "comments gives the same table; every proper prefix of the document (token-wise and inside a token) and every "
    "single-point corruption (a float replaced by a word, a float missing, an extra float) raises instead of "
    "returning a tree. Non-trivial: >= 2 nesting levels with material after an inner split, or an empty non-final "
    "alternative, or a branch of >= 1000 points."
)
ASSUMPTIONS = [
    "the supported grammar: a split always follows at least one point of its own branch and is never textually empty "
    "('( )'); comments only in tree-body positions; whitespace is space / tab / newline",
    "any exception counts as a rejection of a truncated / corrupted document; returning a tree is the violation",
]


def _classify(ctx, case):
    s = gen_asc.stats(case)
    ctx.cls(f"depth:{min(s['depth'], 5)}" if s["depth"] < 5 else "depth:5+")
    if s["empty_nonfinal"]:
        ctx.cls("empty-non-final-alternative")
    if s["empty_first"]:
        ctx.cls("empty-first-alternative")
    if s["after_inner_split"]:
        ctx.cls("material-after-inner-split")
    if s["longest"] >= 1000:
        ctx.cls("branch>=1000-points")
    if s["depth"] >= 8:
        ctx.cls("nesting>=8")
    if s["depth"] >= 1000:
        ctx.cls("nesting>=1000")
    return (s["depth"] >= 2 and s["after_inner_split"]) or s["empty_nonfinal"] or s["longest"] >= 1000


def _table_of(tree):
    return [(float(tree.x()[i]), float(tree.y()[i]), float(tree.z()[i]), float(tree.r()[i]), int(tree.pid()[i]))
            for i in range(len(tree))]


def _compare(ctx, clause, tree, want, want_type, text):
    got = _table_of(tree)
    short = lambda: text if len(text) < 400 else text[:400] + "..."  # noqa
    ctx.check(len(got) == len(want), f"{clause}/one-node-per-point",
              lambda: f"{len(got)} nodes for {len(want)} points; document: {short()!r}")
    ctx.check([int(v) for v in tree.id()] == list(range(len(want))), f"{clause}/ids-in-document-order", "")
    for i, (g, w) in enumerate(zip(got, want)):
        # the point's numbers as a float32 table holds them - or more exactly (a float64 table holding the written value
        # itself is at least as faithful): compared after rounding both sides to float32
        ctx.check(tuple(float(np.float32(v)) for v in g[:4]) == w[:4], f"{clause}/coordinates-and-radius",
                  lambda: f"point {i}: {g[:4]} vs {w[:4]}; document: {short()!r}")
        ctx.check(g[4] == w[4], f"{clause}/parent",
                  lambda: f"point {i}: parent {g[4]}, expected {w[4]}; document: {short()!r}")
    ctx.check(all(int(v) == want_type for v in tree.type()), f"{clause}/typed-by-label",
              lambda: f"types {sorted(set(int(v) for v in tree.type()))}, expected {want_type}")


def run_convert(case, ctx):
    from swcgeom.transforms import NeurolucidaAscToSwc

    doc = case["doc"]
    toks, nodes = gen_asc.tokens_and_table(doc)
    text = gen_asc.join_tokens(toks, doc["ws"])
    want = gen_asc.expected_table(nodes)
    want_type = 2 if doc["label"].upper() == "AXON" else 3
    ctx.nontrivial(_classify(ctx, doc))
    ctx.cls("via:" + case["via"], "label:" + doc["label"].upper())
    for i, (k, _v) in enumerate(toks):
        if k == "comment" and toks[i - 1][0] == "(":
            ctx.cls("comment-right-after-a-split-opens")
        elif k == "comment" and toks[i - 1][0] == "|":
            ctx.cls("comment-right-after-a-bar")
    if case.get("rejected_before") is not None:
        conv = NeurolucidaAscToSwc()
        for _ in range(2):
            try:
                NeurolucidaAscToSwc.from_stream(io.StringIO(case["rejected_before"]))
            except Exception:  # noqa - rejections are judged by the truncate / corrupt sub-checks
                pass
            bad_path = os.path.join(ctx.tmpdir, "bad.asc")
            with open(bad_path, "w", encoding="utf-8") as f:
                f.write(case["rejected_before"])
            try:
                conv(bad_path)
            except Exception:  # noqa
                pass
        ctx.cls("converted-after-a-rejected-document")
    if case["via"] in ("ast", "ast-types"):
        # the two documented steps taken by hand: parse, then build the table - optionally with the caller's own type codes
        from swcgeom.core.swc_utils import SWCTypes
        from swcgeom.transforms.neurolucida_asc import Parser

        ast = ctx.lib("Parser.parse", lambda: Parser(io.StringIO(text)).parse())
        if case["via"] == "ast-types":
            tree = ctx.lib("from_ast[types]", lambda: NeurolucidaAscToSwc.from_ast(ast, types=SWCTypes(axon=20, basal_dendrite=30, apical_dendrite=40)))
            want_type = 20 if doc["label"].upper() == "AXON" else 30
        else:
            tree = ctx.lib("from_ast", NeurolucidaAscToSwc.from_ast, ast)
    elif case["via"] == "stream":
        tree = ctx.lib("from_stream", NeurolucidaAscToSwc.from_stream, io.StringIO(text))
    else:
        path = os.path.join(ctx.tmpdir, "doc.asc")
        with open(path, "w", encoding="utf-8", newline="") as f:
            f.write(text)
        if case["via"] == "convert":
            tree = ctx.lib("convert", NeurolucidaAscToSwc.convert, path)
        else:
            tree = ctx.lib("call", lambda: NeurolucidaAscToSwc()(path))
        ctx.check(os.path.abspath(tree.source) == os.path.abspath(path), "convert/source-is-the-file", f"{tree.source}")
    _compare(ctx, "convert", tree, want, want_type, text)
    if len(text) > 16384 and any(k == "comment" for k, _v in toks):
        ctx.cls("annotated-document>16KB")
    if len(text) > 70000 and sum(1 for k, _v in toks if k == "comment") > 500:
        ctx.cls("heavily-annotated-document>70KB")
    if case["via"] in ("convert", "call") and len(want) <= 400:
        # the same file converted again (and again): every conversion is a function of the file
        prev = tree
        for rep in (2, 3):
            # what the caller does with one result (here: moves and re-types it in place) is nothing to the next conversion
            for col in "xyz":
                prev.get_ndata(col)[:] = prev.get_ndata(col) + np.float32(100.0 * rep)
            prev.get_ndata("type")[:] = 7
            prev.node(0).r = 12345.0
            again = prev = ctx.lib("convert", NeurolucidaAscToSwc.convert, path if rep == 2 else str(path))
            _compare(ctx, f"convert-again[{rep}]", again, want, want_type, text)
        ctx.cls("same-file-converted-three-times")
    # colours and comments do not change the result
    toks2, nodes2 = gen_asc.tokens_and_table(doc, strip_decor=True)
    if len(toks2) != len(toks):
        ctx.cls("has-colours-or-comments")
        text2 = gen_asc.join_tokens(toks2, doc["ws"] + 1)
        tree2 = ctx.lib("from_stream", NeurolucidaAscToSwc.from_stream, io.StringIO(text2))
        _compare(ctx, "decor-stripped", tree2, want, 2 if doc["label"].upper() == "AXON" else 3, text2)


@st.composite
def convert_strategy(draw, tier):
    return {"doc": draw(gen_asc.document(tier)), "via": draw(st.sampled_from(["stream", "stream", "convert", "call", "ast", "ast-types", "ast-types"])),
            # the converter has just rejected another document (a truncated one, a malformed point): the caller caught the
            # error and goes on with this one
            "rejected_before": draw(st.sampled_from([None, None, None, "( (Axon) (1 2 3 4) ( (5 6 7 8) | (9 1 1",
                                                     "( (Dendrite) (1 2 3 4) (5 six 7 8) )", "( (Color Red) (Axon) (1 2 3", ""]))}


# ----------------------------------------------------------------------------- truncations
@st.composite
def truncate_strategy(draw, tier):
    return {"doc": draw(gen_asc.document(tier)), "cuts": draw(st.lists(st.integers(0, 10 ** 6), min_size=3, max_size=8)),
            "char_cuts": draw(st.lists(st.integers(0, 10 ** 6), min_size=1, max_size=4))}


def _must_raise(ctx, clause, text, what):
    from swcgeom.transforms import NeurolucidaAscToSwc

    try:
        tree = NeurolucidaAscToSwc.from_stream(io.StringIO(text))
    except RecursionError:
        raise
    except Exception:  # noqa - any loud refusal is fine
        return
    short = text if len(text) < 400 else text[:200] + " ... " + text[-200:]
    ctx.fail(clause, f"{what}: returned a tree of {len(tree)} nodes for {short!r}")


def run_truncate(case, ctx):
    doc = case["doc"]
    toks, nodes = gen_asc.tokens_and_table(doc)
    ntri = _classify(ctx, doc)
    ctx.nontrivial(ntri or len(toks) > 20)
    n = len(toks)
    cuts = sorted({c % n for c in case["cuts"]} | {n - 1, 0})
    for cut in cuts:  # keep toks[:cut]: a proper prefix
        text = gen_asc.join_tokens(toks, doc["ws"], upto=cut)
        ctx.cls("cut:last-bracket-only" if cut == n - 1 else "cut:inside")
        _must_raise(ctx, "truncated/token-prefix-accepted", text, f"first {cut} of {n} tokens")
    full = gen_asc.join_tokens(toks, doc["ws"])
    core = full.rstrip()
    for c in case["char_cuts"]:
        k = c % len(core)
        if k == 0:
            continue
        ctx.cls("cut:char")
        _must_raise(ctx, "truncated/char-prefix-accepted", core[:k], f"first {k} of {len(core)} characters")


# ----------------------------------------------------------------------------- corruptions
BAD_WORDS = ["foo", "1.2.3", "12a", "--1", "1e", "nan", "1,5", "0x10"]


@st.composite
def corrupt_strategy(draw, tier):
    return {"doc": draw(gen_asc.document(tier)), "sel": draw(st.integers(0, 10 ** 6)),
            "kind": draw(st.sampled_from(["word", "missing", "extra"])), "slot": draw(st.integers(0, 3)),
            "word": draw(st.sampled_from(BAD_WORDS))}


def run_corrupt(case, ctx):
    doc = case["doc"]
    toks, nodes = gen_asc.tokens_and_table(doc)
    starts = [i for i, (k, _) in enumerate(toks) if k == "num" and toks[i - 1][0] == "("]
    if not starts:
        return
    p = starts[case["sel"] % len(starts)]
    pos = p + case["slot"]
    kind = case["kind"]
    toks = list(toks)
    if kind == "word":
        if case["word"] == "nan":  # python's float() accepts it but the number grammar does not: lexed as a word
            pass
        toks[pos] = ("word", case["word"])
    elif kind == "missing":
        del toks[pos]
    else:
        toks.insert(pos, ("num", "7.5"))
    ctx.cls("corrupt:" + kind, f"slot:{case['slot']}", "first-point" if p == starts[0] else "later-point")
    ctx.nontrivial(p != starts[0] and len(starts) >= 3)
    text = gen_asc.join_tokens(toks, doc["ws"])
    _must_raise(ctx, f"corrupted/{kind}-accepted", text, f"{kind} at number {case['slot']} of a point")


# ----------------------------------------------------------------------------- coverage-guided campaigns (thorough tier)
ASC_MODULES = ["swcgeom.transforms.neurolucida_asc"]


def decode_raw(data):
    if len(data) < 2:
        return None
    return {"text": ref_text.ASC_ALPHABET.decode(data)}


def raw_seeds(tier):
    """A few small valid documents (the repository's own test snippets and generator output) as starting corpus."""
    docs = [
        "( (Axon) (0 0 0 1) (1 0 0 1) ( (2 1 0 1) | (2 -1 0 1) ) )",
        "( (Color Red) (Dendrite) (0 0 0 1.5) ( (1 1 0 1) ( (2 2 0 1) | (2 0 0 1) ) | | (1 -1 0 1) ) )",
        "( (Axon)\n (0 0 0 1) ; root\n (1 0 0 1)\n (\n (2 1 0 1)\n |\n (2 -1 0 1) (Color Red) (3 -1 0 1)\n ) ; end\n)",
        "((Dendrite)(1.5 -2 .5 1e0)((+1 1 1 1)|))",
    ]
    return [ref_text.ASC_ALPHABET.encode(d) for d in docs]


def run_raw(case, ctx):
    """Any text over the ASC alphabet: the independent reference reader says whether it is a grammatical document
    (then the table is known), definitely malformed (a proper prefix of a grammatical document, or grammatical up to a
    point that does not consist of four numbers: must be refused) or neither.  Every call runs under the watchdog."""
    from swcgeom.transforms import NeurolucidaAscToSwc

    text = case["text"]
    verdict, want, label = ref_text.asc_reference(text)
    ctx.cls("raw:" + verdict)

    def convert():
        try:
            return NeurolucidaAscToSwc.from_stream(io.StringIO(text)), None
        except RecursionError:
            raise
        except Exception as e:  # noqa
            return None, e

    tree, err = ctx.timed("raw/from_stream", convert, limit=20.0)
    if verdict == "ambiguous":
        # nothing is asserted about such texts except that the call returns
        ctx.ambiguous("text-outside-the-supported-grammar-and-not-definitely-malformed")
        return
    short = text if len(text) < 400 else text[:200] + " ... " + text[-200:]
    if verdict == "malformed":
        ctx.nontrivial(len(text) > 30)
        ctx.check(tree is None, "raw/malformed-document-accepted",
                  lambda: f"premature end or malformed point: returned a tree of {len(tree)} nodes for {short!r}")
        return
    ctx.nontrivial(len(want) >= 3)
    ctx.check(tree is not None, "raw/from_stream/raises:" + type(err).__name__, lambda: f"{type(err).__name__}: {err} for {short!r}")
    _compare(ctx, "raw", tree, [tuple(w) for w in want], 2 if label == "AXON" else 3, text)


SUBCHECKS = [
    Sub("convert", convert_strategy, run_convert, quick=1000, thorough=12000, shards_quick=8,
        required={"material-after-inner-split": 60, "empty-non-final-alternative": 60, "empty-first-alternative": 40,
                  "branch>=1000-points": 10, "nesting>=8": 10, "nesting>=1000": 1, "via:convert": 30, "via:call": 30,
                  "has-colours-or-comments": 100, "comment-right-after-a-split-opens": 15, "comment-right-after-a-bar": 10, "annotated-document>16KB": 15, "heavily-annotated-document>70KB": 15, "converted-after-a-rejected-document": 200, "via:ast-types": 60,
                  "same-file-converted-three-times": 100, "label:AXON": 100, "label:DENDRITE": 100}),
    Sub("truncate", truncate_strategy, run_truncate, quick=400, thorough=5000, shards_quick=8,
        required={"cut:last-bracket-only": 200, "cut:inside": 500, "cut:char": 200}),
    Sub("corrupt", corrupt_strategy, run_corrupt, quick=900, thorough=9000, shards_quick=4,
        required={"corrupt:word": 60, "corrupt:missing": 60, "corrupt:extra": 60, "later-point": 100}),
    # Atheris / libFuzzer, thorough tier: the same grammar strategy driven through Hypothesis's fuzz_one_input ...
    Fuzz("fuzz_convert", run_convert, ASC_MODULES, mode="structured", strategy=convert_strategy, runs_thorough=2500,
         shards_thorough=4, max_len=8192),
    Fuzz("fuzz_truncate", run_truncate, ASC_MODULES, mode="structured", strategy=truncate_strategy, runs_thorough=1200,
         shards_thorough=2, max_len=8192),
    # ... and raw document bytes against the independent reference reader (empty and seeded corpus)
    Fuzz("fuzz_raw", run_raw, ASC_MODULES, mode="raw", decode=decode_raw, seeds=raw_seeds, runs_thorough=150000,
         shards_thorough=6, max_len=600, required={"raw:table": 200, "raw:malformed": 200}),
]
