"""C11 — Morphometrics do not depend on pose or node numbering."""
import math

import numpy as np
from hypothesis import strategies as st

from vlib import gen_tree, models
from vlib.harness import Sub

PROPERTY = "C11"
RULE = (
    "Trees in general position (distinct lattice points, multiples of 1/8 within +-64, so the smallest segment is "
    "0.125 and float32 re-rounding after a motion is < 1e-4 of it), root typed soma, and a transformation: rigid "
    "motion (unit axis of any direction, angle in (-2pi, 2pi), offset up to 100 per axis), root-first renumbering, or "
    "uniform scale s in [0.1, 10] (coordinates and radii). The transformed twin is built by the harness in float64 "
    "and rounded to float32 - not by the library's transforms. Oracle (metamorphic): length, sorted branch / path "
    "lengths and tortuosities, radial distances (node for node, mapped through the renumbering), counts, sorted "
    "branch orders, Sholl counts at radii outside the ambiguity band of both twins and on the integer step grid, "
    "L-Measure bifurcation amplitudes / tilts / partition asymmetry / path and Euclidean distances, and "
    "get_volume(accuracy=3) agree; under scaling lengths x s, volume x s^3, counts / angles / tortuosities / "
    "Sholl-by-steps unchanged. Volume at the default accuracy (Monte-Carlo cone / cone terms, ~0.7 s each) is compared on "
    "a dedicated family: a stem node with three or four thick daughters, two of them nearly parallel so that their cones "
    "overlap, under a root-first renumbering that changes sibling order and / or a rigid motion (tolerance 0.5 %, the "
    "Monte-Carlo noise being ~0.03 %). Non-trivial: >= 5 nodes, a furcation, |sin(angle/2)| > 0.05 and non-zero offset "
    "(rigid) / a permutation that moves >= 3 nodes / s outside [0.9, 1.1]."
)
ASSUMPTIONS = [
    "twin coordinates are re-rounded to float32: length-like features compared within 1e-4*(1+L) + 5e-5 per segment, "
    "tortuosities within 2e-3, angles within 0.1 degree, volume within 1e-3 relative",
    "Sholl radii within 1e-4*(1+scale) of a node's radial distance are not compared (counted as ambiguous)",
]

LEN_FEATURES = ["length", "node_radial_distance", "furcation_radial_distance", "tip_radial_distance", "branch_length",
                "path_length"]
RATIO_FEATURES = ["branch_tortuosity", "path_tortuosity"]
COUNT_FEATURES = ["node_count", "furcation_count", "tip_count", "node_branch_order"]
PER_NODE = {"node_radial_distance"}


@st.composite
def case_strategy(draw, tier):
    max_n = 20 if tier == "quick" else 80
    t = draw(gen_tree.tree_case(min_n=2, max_n=max_n, regimes=["lattice"], soma_root=True, distinct_points=True,
                                permute=False, extras=False))
    for c in "xyz":  # lattice within +-64
        t[c] = [((v * 8) % 1024 - 512) / 8.0 for v in t[c]]
    # re-establish distinctness after the wrap (constructed)
    seen = set()
    for i in range(len(t["x"])):
        k = 0
        while (t["x"][i], t["y"][i], t["z"][i]) in seen:
            k += 1
            t["x"][i] = ((t["x"][i] * 8 + 512 + k) % 1024 - 512) / 8.0
        seen.add((t["x"][i], t["y"][i], t["z"][i]))
    kind = draw(st.sampled_from(["rigid", "rigid", "renumber", "scale"]))
    far = kind == "rigid" and draw(st.integers(0, 3)) == 0
    fine = 32.0 if (far and draw(st.booleans())) else 8.0
    if draw(st.integers(0, 4)) == 0 or fine == 32.0:
        # a finely traced neuron: every node within half a unit of its parent (steps of 1/8, or of 1/32 within an eighth of
        # a unit for neurons that will be moved far away), still all points distinct
        order = models.topo_order(t["parents"])
        seen = set()
        for i in order:
            p = t["parents"][i]
            base = (0.0, 0.0, 0.0) if p == -1 else (t["x"][p], t["y"][p], t["z"][p])
            while True:
                stp = [draw(st.integers(-4, 4)) / fine for _ in range(3)]
                c = (base[0] + stp[0], base[1] + stp[1], base[2] + stp[2])
                if c not in seen:
                    break
            seen.add(c)
            t["x"][i], t["y"][i], t["z"][i] = c
        t["compact"] = True
        if fine == 32.0:
            t["fine32"] = True  # steps of 1/32 need five decimals: such neurons do not survive an SWC file exactly
    case = {"tree": t, "kind": kind, "steps": draw(st.integers(1, 15)),
            "fracs": draw(st.lists(st.floats(min_value=0.05, max_value=1.1, allow_nan=False), min_size=2, max_size=5))}
    n = len(t["parents"])
    if kind == "rigid":
        ax = [draw(st.integers(-8, 8)) for _ in range(3)]
        if not any(ax):
            ax = [1, 1, 0]
        case["axis"] = ax
        case["theta"] = draw(st.floats(min_value=-6.28, max_value=6.28, allow_nan=False))
        case["offset"] = [draw(st.integers(-800, 800)) / 8.0 for _ in range(3)]
        if far:
            # a pure translation far away (stack coordinates): multiples of 4096, exact for lattice points in float32
            case["theta"] = 0.0
            case["offset"] = [draw(st.integers(-8, 8)) * 4096.0 for _ in range(3)]
            case["far"] = True
    elif kind == "renumber":
        case["perm"] = list(draw(st.permutations(list(range(1, n))))) if n > 1 else []
    else:
        case["s"] = draw(st.one_of(st.floats(min_value=0.1, max_value=10.0, allow_nan=False),
                                   st.sampled_from([0.5, 2.0, 4.0, 0.25])))
    return case


def _twin(case):
    """(twin tree case, map old id -> new id, length factor)."""
    t = case["tree"]
    n = len(t["parents"])
    P = models.xyz64(t)
    out = {k: list(v) if isinstance(v, list) else v for k, v in t.items()}
    ident = list(range(n))
    if case["kind"] == "rigid":
        Rm = models.rodrigues(case["axis"], case["theta"])
        Q = P @ Rm.T + np.asarray(case["offset"], dtype=np.float64)
        for k, c in enumerate("xyz"):
            out[c] = [gen_tree.f32(v) for v in Q[:, k]]
        return out, ident, 1.0
    if case["kind"] == "scale":
        s = case["s"]
        for c in "xyz":
            out[c] = [gen_tree.f32(v * s) for v in t[c]]
        out["r"] = [gen_tree.f32(v * s) for v in t["r"]]
        return out, ident, s
    parents, new = gen_tree.permute_keep_root(t["parents"], case["perm"])
    out["parents"] = parents
    for col in ("x", "y", "z", "r", "type"):
        v = [None] * n
        for i in range(n):
            v[new[i]] = t[col][i]
        out[col] = v
    return out, new, 1.0


def _measure(ctx, tree, t, label, extents_first=False, lm=None):
    from swcgeom.analysis import extract_feature, get_volume
    from swcgeom.analysis.lmeasure import LMeasure

    if extents_first:
        # a measuring session that starts with the neuron's extents (width / height / depth): whatever is asked first,
        # the later answers are those of the same neuron
        lm0 = LMeasure()
        ctx.lib(f"{label}/extents", lambda: (lm0.width(tree), lm0.height(tree), lm0.depth(tree)))
    fe = extract_feature(tree)
    out = {}
    for name in LEN_FEATURES + RATIO_FEATURES + COUNT_FEATURES:
        out[name] = np.asarray(ctx.lib(f"{label}/extract_feature[{name}]", fe.get, name), dtype=np.float64).reshape(-1)
    out["volume"] = float(ctx.lib(f"{label}/get_volume", get_volume, tree, accuracy=3))
    lm = lm if lm is not None else LMeasure()
    ch = models.children(t["parents"])
    ang = {}
    per_node = {}
    for i in range(len(ch)):
        nd = tree.node(i)
        if len(ch[i]) >= 2 and t["parents"][i] == -1:
            # a measuring loop asks every furcation for everything and catches what a node does not support (the root has no
            # parent segment to tilt against): nothing of a refused call may show in later answers
            for fn in (lm.bif_tilt_remote, lm.bif_tilt_local):
                try:
                    fn(nd)
                except Exception:  # noqa
                    pass
        per_node[i] = (float(lm.path_distance(nd)), float(lm.euc_distance(nd)), int(lm.branch_order(nd)),
                       int(lm.terminal_degree(nd)))
        if len(ch[i]) == 2:
            vals = [float(lm.bif_ampl_local(nd)), float(lm.bif_ampl_remote(nd)), float(lm.partition_asymmetry(nd))]
            if t["parents"][i] != -1:
                vals += [float(lm.bif_tilt_local(nd)), float(lm.bif_tilt_remote(nd))]
            ang[i] = vals
    out["angles"] = ang
    out["per_node"] = per_node
    return out


def run_case(case, ctx):
    from swcgeom.analysis import Sholl

    t = case["tree"]
    parents = t["parents"]
    n = len(parents)
    kind = case["kind"]
    twin, new, s = _twin(case)
    # both neurons may carry the same `source` (the twin was derived from a tree that was read from that file)
    src = "/data/cells/neuron-17.swc" if case["steps"] % 4 < 2 else ""
    tree_a = gen_tree.build_tree(t, extras=False, source=src)
    tree_b = gen_tree.build_tree(twin, extras=False, source=src)
    if src:
        ctx.cls("both-twins-carry-the-same-source")
    ch = models.children(parents)
    nfurc = sum(1 for c in ch if len(c) >= 2)
    if kind == "rigid":
        moved = abs(math.sin(case["theta"] / 2)) > 0.05 and any(case["offset"])
    elif kind == "renumber":
        moved = sum(1 for i in range(n) if new[i] != i) >= 3
    else:
        moved = not 0.9 <= s <= 1.1
    ctx.cls("kind:" + kind, "furcation" if nfurc else "no-furcation")
    if case.get("far"):
        ctx.cls("translated-far-away")
        moved = any(case["offset"])
    if t.get("compact"):
        ctx.cls("finely-traced")
    if t.get("fine32") and case.get("far"):
        ctx.cls("traced-in-steps-of-1/32-and-moved-far-away")
    ctx.nontrivial(n >= 5 and nfurc >= 1 and moved)

    extents_first = case["steps"] % 3 == 0
    if extents_first:
        ctx.cls("extents-asked-first")
    shared = None
    if case["steps"] % 2 == 1:
        # one L-Measure object for both neurons, as in a session that measures a whole data set with it
        from swcgeom.analysis.lmeasure import LMeasure

        shared = LMeasure()
        ctx.cls("one-lmeasure-object-for-both-twins")
    A = _measure(ctx, tree_a, t, "original", extents_first, shared)
    B = _measure(ctx, tree_b, twin, "twin", extents_first, shared)
    if kind == "scale" and case["steps"] % 2 == 0:
        # the library's own Scale applied to the tree that has just been measured: the derived tree's lengths are its
        # own (s times the original's), whatever was computed on the original before
        from swcgeom.analysis import extract_feature
        from swcgeom.transforms import Scale

        ctx.cls("scaled-by-the-library-after-measuring")
        derived = ctx.lib("Scale", lambda: Scale(s, s, s)(tree_a))
        got_len = float(np.asarray(ctx.lib("derived/extract_feature[length]", lambda: extract_feature(derived).get("length"))).reshape(-1)[0])
        got_len2 = float(ctx.lib("derived/length", derived.length))
        want_len = float(A["length"][0]) * s
        for g in (got_len, got_len2):
            ctx.check(abs(g - want_len) <= (1e-4 * (1.0 + abs(want_len)) + 5e-5 * n) * max(s, 1.0), "scale/length-of-the-library-scaled-tree",
                      lambda: f"{g} vs {want_len} (s={s})")
        bl = np.sort(np.asarray(extract_feature(derived).get("branch_length"), dtype=np.float64))
        ctx.check(len(bl) == len(A["branch_length"]) and float(np.abs(bl - np.sort(A["branch_length"]) * s).max(initial=0.0)) <=
                  (1e-4 * (1.0 + abs(want_len)) + 5e-5 * n) * max(s, 1.0), "scale/branch-lengths-of-the-library-scaled-tree", "")
    Pa, Pb = models.xyz64(t), models.xyz64(twin)
    scale = float(np.abs(Pa - Pa[0]).max())
    L = float(models.seg_lengths(t).sum())
    info = lambda: f"kind={kind} " + str({k: v for k, v in case.items() if k not in ('tree', 'fracs')}) + f" parents={parents}"  # noqa
    sm = max(s, 1.0)

    def tol_len(v):
        return (1e-4 * (1.0 + abs(v)) + 5e-5 * n) * sm

    for name in LEN_FEATURES:
        a, b = A[name] * s, B[name]
        ctx.check(len(a) == len(b), f"{kind}/{name}/size", lambda: f"{len(a)} vs {len(b)}; {info()}")
        if name in PER_NODE:
            b = np.array([b[new[i]] for i in range(n)])
        else:
            a, b = np.sort(a), np.sort(b)
        bad = [(x, y) for x, y in zip(a, b) if abs(x - y) > tol_len(x)]
        ctx.check(not bad, f"{kind}/{name}/{'scales-with-s' if kind == 'scale' else 'unchanged'}",
                  lambda: f"first differing pair {bad[0]} (of {len(bad)}); {info()}")
    for name in RATIO_FEATURES:
        a, b = np.sort(A[name]), np.sort(B[name])
        ctx.check(len(a) == len(b) and (len(a) == 0 or float(np.abs(a - b).max()) <= 2e-3), f"{kind}/{name}/unchanged",
                  lambda: f"{a.tolist()} vs {b.tolist()}; {info()}")
    for name in COUNT_FEATURES:
        a, b = np.sort(A[name]), np.sort(B[name])
        ctx.check(np.array_equal(a, b), f"{kind}/{name}/unchanged", lambda: f"{a.tolist()} vs {b.tolist()}; {info()}")
    va, vb = A["volume"] * s ** 3, B["volume"]
    ctx.check(abs(va - vb) <= 1e-3 * abs(va) + 1e-9, f"{kind}/volume/{'scales-with-s^3' if kind == 'scale' else 'unchanged'}",
              lambda: f"{va} vs {vb}; {info()}")
    for i, vals in A["angles"].items():
        j = new[i]
        ctx.check(j in B["angles"] and len(B["angles"][j]) == len(vals), f"{kind}/bifurcations/same-nodes", info)
        for k, (x, y) in enumerate(zip(vals, B["angles"][j])):
            nm = ["bif_ampl_local", "bif_ampl_remote", "partition_asymmetry", "bif_tilt_local", "bif_tilt_remote"][k]
            ok = abs(x - y) <= (1e-9 if k == 2 else 0.1)
            ctx.check(ok, f"{kind}/{nm}/unchanged", lambda: f"node {i}: {x} vs {y}; {info()}")
    for i, (pd, ed, bo, td) in A["per_node"].items():
        pd2, ed2, bo2, td2 = B["per_node"][new[i]]
        ctx.check(abs(pd * s - pd2) <= tol_len(pd * s) and abs(ed * s - ed2) <= tol_len(ed * s),
                  f"{kind}/path-and-euclidean-distance", lambda: f"node {i}: {(pd, ed)} vs {(pd2, ed2)}; {info()}")
        ctx.check(bo == bo2 and td == td2, f"{kind}/branch-order-and-terminal-degree",
                  lambda: f"node {i}: {(bo, td)} vs {(bo2, td2)}; {info()}")

    # Sholl profile
    da = np.linalg.norm(Pa - Pa[0], axis=1)
    db = np.linalg.norm(Pb - Pb[new[0]], axis=1)
    rmax = float(da.max())
    if rmax > 0:
        sha, shb = Sholl(tree_a), Sholl(tree_b)
        band = 1e-4 * (1.0 + scale) * sm
        radii = [f * rmax for f in case["fracs"]]
        n_cmp = 0
        for r in radii:
            if np.any(np.abs(da * s - r * s) <= band) or np.any(np.abs(db - r * s) <= band):
                ctx.ambiguous("sholl:radius-near-a-node-distance")
                continue
            n_cmp += 1
            ga, gb = int(sha.intersect(r)), int(shb.intersect(r * s))
            ctx.check(ga == gb, f"{kind}/sholl/unchanged", lambda: f"r={r}: {ga} vs {gb}; {info()}")
        k = case["steps"]
        ga, gb = np.asarray(sha.get(k)), np.asarray(shb.get(k))
        if len(ga) == len(gb):
            grid = np.asarray(Sholl.get_rs(sha.rmax, k), dtype=np.float64)
            for idx, r in enumerate(grid):
                if np.any(np.abs(da - r) * s <= band) or np.any(np.abs(db - r * s) <= band):
                    ctx.ambiguous("sholl:grid-radius-near-a-node-distance")
                    continue
                ctx.check(int(ga[idx]) == int(gb[idx]), f"{kind}/sholl-by-steps/unchanged",
                          lambda: f"steps={k} index {idx}: {ga.tolist()} vs {gb.tolist()}; {info()}")
        else:
            ctx.ambiguous("sholl:grid-length-differs-by-rounding")
            ctx.check(abs(len(ga) - len(gb)) <= 1, f"{kind}/sholl-by-steps/grid-length", f"{len(ga)} vs {len(gb)}")
        if kind == "rigid" and case["theta"] == 0.0 and not t.get("fine32"):
            # a pure translation of a lattice neuron survives the four decimals of an SWC file exactly: the profile of the
            # neuron given as a file name is that of the tree object, wherever the neuron lies
            import os

            ctx.cls("sholl-from-a-file-name")
            prof = {}
            for lab, tr in (("original", tree_a), ("twin", tree_b)):
                path = os.path.join(ctx.tmpdir, f"sholl-{lab}.swc")
                tr.to_swc(path)
                sp = ctx.lib(f"{lab}/Sholl(path)", Sholl, path)
                prof[lab] = np.asarray(ctx.lib(f"{lab}/Sholl(path).get", sp.get, k))
            ctx.check(np.array_equal(prof["original"], np.asarray(sha.get(k))), "rigid/sholl-from-a-file-name/equals-the-tree-object's",
                      lambda: f"{prof['original'].tolist()} vs {np.asarray(sha.get(k)).tolist()}; {info()}")
            ctx.check(np.array_equal(prof["original"], prof["twin"]), "rigid/sholl-from-a-file-name/unchanged-by-translation",
                      lambda: f"{prof['original'].tolist()} vs {prof['twin'].tolist()}; {info()}")


# ----------------------------------------------------------------------------- scaling by powers of two, far from unit size
@st.composite
def pow2_strategy(draw, tier):
    max_n = 20 if tier == "quick" else 60
    t = draw(gen_tree.tree_case(min_n=2, max_n=max_n, regimes=["lattice"], soma_root=True, distinct_points=True,
                                permute=False, extras=False))
    return {"tree": t, "exp": draw(st.sampled_from([-30, -27, -24, -23, -20, -16, -10, 10, 16, 20, 24, 30]))}


def run_pow2(case, ctx):
    """Scaling by 2^k is exact in binary floating point (no re-rounding of the twin, no rounding differences in products,
    sums of squares and square roots): lengths scale by exactly s, ratios and counts do not move at all - at any size."""
    from swcgeom.analysis import extract_feature
    from swcgeom.analysis.lmeasure import LMeasure

    t = case["tree"]
    s = 2.0 ** case["exp"]
    twin = dict(t)
    for c in "xyzr":
        twin[c] = [v * s for v in t[c]]
    n = len(t["parents"])
    ch = models.children(t["parents"])
    ctx.cls(f"scale:2^{case['exp']}", "tiny" if case["exp"] < 0 else "huge")
    ctx.nontrivial(n >= 5 and any(len(c) >= 2 for c in ch))
    tree_a, tree_b = gen_tree.build_tree(t, extras=False), gen_tree.build_tree(twin, extras=False)
    fa, fb = extract_feature(tree_a), extract_feature(tree_b)
    info = lambda: f"s=2^{case['exp']} parents={t['parents']}"  # noqa
    for name in LEN_FEATURES:
        a = np.asarray(ctx.lib(f"original/{name}", fa.get, name), dtype=np.float64).reshape(-1) * s
        b = np.asarray(ctx.lib(f"twin/{name}", fb.get, name), dtype=np.float64).reshape(-1)
        ctx.check(len(a) == len(b) and bool(np.all(np.abs(a - b) <= 1e-5 * np.abs(a))), f"pow2/{name}/scales-with-s",
                  lambda: f"{a.tolist()[:6]} vs {b.tolist()[:6]}; {info()}")
    for name in RATIO_FEATURES + COUNT_FEATURES:
        a = np.asarray(ctx.lib(f"original/{name}", fa.get, name), dtype=np.float64).reshape(-1)
        b = np.asarray(ctx.lib(f"twin/{name}", fb.get, name), dtype=np.float64).reshape(-1)
        ctx.check(len(a) == len(b) and bool(np.all(np.abs(a - b) <= 1e-5 * np.abs(a))), f"pow2/{name}/unchanged",
                  lambda: f"{a.tolist()[:6]} vs {b.tolist()[:6]}; {info()}")
    lm = LMeasure()
    for i in range(n):
        na, nb = tree_a.node(i), tree_b.node(i)
        pa, pb = float(lm.path_distance(na)) * s, float(lm.path_distance(nb))
        ea, eb = float(lm.euc_distance(na)) * s, float(lm.euc_distance(nb))
        ctx.check(abs(pa - pb) <= 1e-5 * abs(pa) and abs(ea - eb) <= 1e-5 * abs(ea), "pow2/path-and-euclidean-distance/scale-with-s",
                  lambda: f"node {i}: {(pa, ea)} vs {(pb, eb)}; {info()}")
        ctx.check(int(lm.branch_order(na)) == int(lm.branch_order(nb)) and int(lm.terminal_degree(na)) == int(lm.terminal_degree(nb)),
                  "pow2/branch-order-and-terminal-degree/unchanged", lambda: f"node {i}; {info()}")
    la, lb = float(tree_a.length()) * s, float(tree_b.length())
    ctx.check(abs(la - lb) <= 1e-5 * abs(la), "pow2/tree-length/scales-with-s", lambda: f"{la} vs {lb}; {info()}")
    for ba, bb in zip(tree_a.get_branches(), tree_b.get_branches()):
        ta, tb = float(ba.tortuosity()), float(bb.tortuosity())
        ctx.check(abs(ta - tb) <= 1e-5 * abs(ta), "pow2/branch-tortuosity/unchanged", lambda: f"{ta} vs {tb}; {info()}")


# ----------------------------------------------------------------------------- volume at the default (Monte-Carlo) level
DIRS = [(1, 0, 0), (1, 0.16, 0), (1, -0.16, 0), (1, 0, 0.2), (0, 0, 1), (0, 1, 0), (0.2, 1, 0), (-0.5, 0.5, 1), (0, -1, 0.2)]


AXES = [(-1, 0, 0), (0, 1, 0), (0, -1, 0), (0, 0, 1), (0, 0, -1)]  # +x leads back along the stem: not used


def cube_rotations():
    """The 24 proper rotations that map coordinate axes onto coordinate axes (signed permutation matrices, det +1)."""
    import itertools

    out = []
    for perm in itertools.permutations(range(3)):
        for sg in itertools.product([1, -1], repeat=3):
            m = np.zeros((3, 3))
            for i, p_ in enumerate(perm):
                m[i, p_] = sg[i]
            if np.linalg.det(m) > 0:
                out.append(m)
    return out


CUBE = cube_rotations()


@st.composite
def _axis_parallel_case(draw):
    """Every compartment parallel to a coordinate axis, two or three daughters of one node leaving along the *same*
    axis with different lengths (their cones overlap over the whole shorter one) plus daughters along other axes.
    Twin: another root-first numbering, and the neuron turned by one of the 24 rotations of the cube and shifted."""
    nodes = [[0.0, 0.0, 0.0, 1.5, -1], [-5.0, 0.0, 0.0, draw(st.sampled_from([0.75, 1.0, 1.25])), 0]]
    axes = list(draw(st.permutations(AXES)))[: draw(st.integers(2, 3))]
    for ai, d in enumerate(axes):
        m = draw(st.integers(2, 3)) if ai == 0 else draw(st.integers(1, 2))
        lens = list(draw(st.permutations([2.5, 3.0, 4.0, 5.0, 6.0])))[:m]
        for L in lens:
            nodes.append([-5.0 + d[0] * L, d[1] * L, d[2] * L, draw(st.sampled_from([0.5, 0.75, 1.0, 1.25])), 1])
    n = len(nodes)
    return {"family": "axis-parallel", "nodes": nodes, "perm": list(draw(st.permutations(list(range(1, n))))),
            "move": True, "cube": draw(st.integers(0, 23)), "offset": [draw(st.integers(-80, 80)) / 8.0 for _ in range(3)]}


@st.composite
def volume_mc_strategy(draw, tier):
    """A soma, a stem and one node with three or four thick daughters, two or more of which leave in almost the same
    direction: their cones overlap beyond the node's sphere, which only the default accuracy level (>= 5) accounts
    for, pair by pair.  Twin: the same neuron with another root-first numbering (sibling order changes) and / or
    rigidly moved.  A third of the cases are axis-parallel neurons moved by rotations of the cube."""
    if draw(st.integers(0, 2)) == 0:
        return draw(_axis_parallel_case())
    k = draw(st.integers(3, 4))
    dirs = list(draw(st.permutations(DIRS)))[:k]
    if draw(st.integers(0, 3)) > 0:  # make sure two near-parallel daughters are present, in any position
        pair = draw(st.sampled_from([[(1, 0.16, 0), (1, -0.16, 0)], [(1, 0, 0), (1, 0, 0.2)], [(0, 1, 0), (0.2, 1, 0)]]))
        pos = draw(st.permutations(list(range(k))))
        dirs[pos[0]], dirs[pos[1]] = pair[0], pair[1]
    dirs = [list(d) for d in dirs]
    for a in range(k):  # distinct directions (constructed)
        while any(dirs[a] == dirs[b] for b in range(a)):
            dirs[a] = [dirs[a][0], dirs[a][1], dirs[a][2] + 0.5]
    L = draw(st.sampled_from([4.0, 5.0, 6.0]))
    rad = lambda: draw(st.sampled_from([0.75, 1.0, 1.25]))  # noqa
    nodes = [[0.0, 0.0, 0.0, 1.5, -1], [-5.0, 0.0, 0.0, rad(), 0]]
    for d in dirs:
        v = np.asarray(d, dtype=np.float64)
        v = v / np.linalg.norm(v) * L
        nodes.append([-5.0 + v[0], v[1], v[2], rad(), 1])
        if draw(st.booleans()):
            nodes.append([-5.0 + 1.8 * v[0], 1.8 * v[1] + 1.0, 1.8 * v[2], 0.75, len(nodes) - 1])
    n = len(nodes)
    case = {"nodes": nodes, "perm": list(draw(st.permutations(list(range(1, n))))),
            "move": draw(st.booleans())}
    if case["move"]:
        case["axis"] = [draw(st.integers(-4, 4)) for _ in range(3)]
        if not any(case["axis"]):
            case["axis"] = [0, 0, 1]
        case["theta"] = draw(st.floats(min_value=-3.0, max_value=3.0, allow_nan=False))
        case["offset"] = [draw(st.integers(-80, 80)) / 8.0 for _ in range(3)]
    return case


def _tree_from_rows(rows):
    from swcgeom.core import Tree

    a = np.asarray(rows, dtype=np.float64)
    n = len(a)
    return Tree(n, id=np.arange(n, dtype=np.int32), pid=a[:, 4].astype(np.int32), type=np.array([1] + [3] * (n - 1), dtype=np.int32),
                x=a[:, 0].astype(np.float32), y=a[:, 1].astype(np.float32), z=a[:, 2].astype(np.float32), r=a[:, 3].astype(np.float32))


def run_volume_mc(case, ctx):
    from swcgeom.analysis import extract_feature, get_volume

    rows = case["nodes"]
    n = len(rows)
    parents = [int(r[4]) for r in rows]
    new_parents, new = gen_tree.permute_keep_root(parents, case["perm"])
    P = np.asarray([r[:3] for r in rows], dtype=np.float64)
    axis_parallel = case.get("family") == "axis-parallel"
    if axis_parallel:
        P = P @ CUBE[case["cube"]].T + np.asarray(case["offset"], dtype=np.float64)
    elif case["move"]:
        P = P @ models.rodrigues(case["axis"], case["theta"]).T + np.asarray(case["offset"], dtype=np.float64)
    twin = [None] * n
    for i in range(n):
        twin[new[i]] = [P[i][0], P[i][1], P[i][2], rows[i][3], new_parents[new[i]]]
    ch = models.children(parents)
    order_a = [i for i in ch[1]]
    order_b = sorted(ch[1], key=lambda i: new[i])
    reordered = order_a != order_b
    ctx.cls("siblings-reordered" if reordered else "sibling-order-kept", "moved" if case["move"] else "in-place",
            f"daughters:{len(ch[1])}", "family:axis-parallel" if axis_parallel else "family:oblique")
    ctx.nontrivial(reordered)
    # two twins, judged separately: the same pose under another numbering, and the rigidly moved neuron
    same_pose = [None] * n
    for i in range(n):
        same_pose[new[i]] = [rows[i][0], rows[i][1], rows[i][2], rows[i][3], new_parents[new[i]]]
    t1, t2 = _tree_from_rows(rows), _tree_from_rows(same_pose)
    v_low = float(ctx.lib("get_volume[accuracy=3]", get_volume, t1, accuracy=3))
    v1 = float(ctx.lib("get_volume[default]", get_volume, t1))
    v2 = float(ctx.lib("renumbered/get_volume[default]", get_volume, t2))
    if v_low - v1 > 0.01 * v1:
        ctx.cls("daughter-cones-overlap>1%")
    tol = 0.005 * max(v1, v2)  # Monte-Carlo noise of the default level is ~3e-4 relative (1e6 samples per pair)
    ctx.check(abs(v1 - v2) <= tol, "volume/default-level-unchanged-by-renumbering",
              lambda: f"{v1!r} vs {v2!r} (relative {abs(v1 - v2) / max(v1, v2):.3g}); nodes {rows}, perm {case['perm']}")
    if (len(rows) + len(case["perm"])) % 4 == 0:
        f2 = float(np.asarray(ctx.lib("renumbered/extract_feature[volume]", lambda: extract_feature(t2).get("volume"))).reshape(-1)[0])
        ctx.check(abs(f2 - v1) <= tol, "volume/feature-front-end-unchanged-by-renumbering", lambda: f"{f2!r} vs {v1!r}")
    if case["move"]:
        t3 = _tree_from_rows(twin)
        l3 = float(ctx.lib("moved/get_volume[accuracy=3]", get_volume, t3, accuracy=3))
        ctx.check(abs(l3 - v_low) <= 1e-3 * v_low, "volume/analytic-level-unchanged-by-rigid-motion", lambda: f"{v_low!r} vs {l3!r}")
        v3 = float(ctx.lib("moved/get_volume[default]", get_volume, t3))
        # the open finding (KNOWN_FINDINGS.txt) concerns compartments that are oblique to the coordinate axes; for
        # axis-parallel neurons under the rotations of the cube the clause is armed under its own signature
        ctx.check(abs(v1 - v3) <= 0.005 * max(v1, v3),
                  "volume/default-level-unchanged-by-axis-parallel-motion" if axis_parallel
                  else "volume/default-level-unchanged-by-rigid-motion",
                  lambda: f"{v1!r} vs {v3!r} (relative {abs(v1 - v3) / max(v1, v3):.3g}); nodes {rows}, perm {case['perm']}, "
                          f"axis {case.get('axis')}, angle {case.get('theta')}, cube rotation {case.get('cube')}, offset {case.get('offset')}")


SUBCHECKS = [
    Sub("invariance", case_strategy, run_case, quick=3000, thorough=40000, shards_quick=8,
        required={"kind:rigid": 150, "kind:renumber": 80, "kind:scale": 80, "furcation": 300, "translated-far-away": 60,
                  "finely-traced": 100, "scaled-by-the-library-after-measuring": 40, "extents-asked-first": 300,
                  "sholl-from-a-file-name": 60, "traced-in-steps-of-1/32-and-moved-far-away": 73,
                  "one-lmeasure-object-for-both-twins": 300, "both-twins-carry-the-same-source": 600}),
    Sub("scale_pow2", pow2_strategy, run_pow2, quick=300, thorough=4000, shards_quick=4, required={"tiny": 60, "huge": 60}),
    Sub("volume_mc", volume_mc_strategy, run_volume_mc, quick=40, thorough=640, shards_quick=8,
        required={"siblings-reordered": 8, "daughter-cones-overlap>1%": 8, "family:axis-parallel": 4, "family:oblique": 8}),
]
