"""C17 — Point-cloud tree construction yields the intended spanning tree."""
import numpy as np
from hypothesis import strategies as st

from vlib import models
from vlib.harness import Enumerate, Sub

PROPERTY = "C17"
RULE = (
    "Point clouds of 2-40 (quick) / 2-300 (thorough) points in general position: distinct lattice points (multiples of "
    "1/4 within +-50) plus a per-coordinate irrational jitter, given as float64 or float32, or integer (voxel) coordinates "
    "on a wide lattice given as int32 / int64 (a loud refusal of an integer array is accepted, a different tree is not); soma given or not; balancing factor in "
    "[0, 1] (and values outside to exercise clipping); branching limit in {-1, 1, 2, 3}; exclude_soma and sort on / off. "
    "Oracle: the result is one well-formed tree (sorted when sort=True) whose multiset of float32 positions is the "
    "input (+ soma), rooted at the soma / first point and typed soma there; PointsToMST(furcations=-1) has the total "
    "length of a reference O(n^2) Prim minimum spanning tree (rtol 1e-9 on the float64 inputs); with limit k no node "
    "other than an exempt root has more than k children; PointsToCuntzMST: the parent array equals a re-simulated "
    "greedy that repeatedly attaches the unconnected point j to the connected, unsaturated point i minimising "
    "|ij| + bf * path(i) (sort=True: the same tree relabelled, compared through positions). A step whose best and "
    "second-best cost differ by < 1e-9 relative makes the case ambiguous (counted, not compared). Non-trivial: >= 8 "
    "points; for the balancing factor a cloud whose reference greedy tree differs from the bf = 0 tree; for the limit "
    "a cloud whose unlimited MST has a node with more than k children."
)
ASSUMPTIONS = [
    "a balancing factor outside [0, 1] is outside the statement's range: a clipped factor is judged as such, a loud refusal is accepted",
    "points are in general position (no exact ties between candidate edges); near-ties are detected by the reference and skipped",
    "bf is clipped to [0, 1] as documented",
]


@st.composite
def cloud_strategy(draw, tier):
    n = draw(st.integers(2, 40 if tier == "quick" else 120))
    if tier != "quick" and draw(st.integers(0, 19)) == 0:
        n = draw(st.integers(120, 300))
    seed = draw(st.integers(0, 2 ** 31 - 1))
    return {"n": n, "seed": seed,
            "soma": draw(st.sampled_from([None, None, [0.3, -0.7, 1.1], [60.0, 60.0, 60.0], [0.01, 0.02, 0.03]])),
            "bf": draw(st.one_of(st.floats(min_value=0.0, max_value=1.0, allow_nan=False),
                                 st.sampled_from([0.0, 0.4, 1.0, -0.5, 1.5, 0.2, 0.8]))),
            "k": draw(st.sampled_from([-1, -1, 1, 2, 2, 3])),
            "exclude_soma": draw(st.booleans()), "sort": draw(st.booleans()),
            "which": draw(st.sampled_from(["cuntz", "cuntz", "mst"])),
            "clustered": draw(st.booleans()),
            # the cloud as the caller may hold it: float64 / float32 arrays, or integer (voxel) coordinates
            "dtype": draw(st.sampled_from(["float64", "float64", "float64", "float32", "int32", "int64"])),
            # the cloud may sit far from the origin (stack coordinates): multiples of 1024, exact in float32
            "far": draw(st.sampled_from([None, None, None, [8192, -16384, 4096], [-20480, 1024, 12288]])),
            # the transform object was used on a small cloud before; the limit given through the deprecated keyword
            "reused": draw(st.integers(0, 3)) == 0, "legacy_kw": draw(st.integers(0, 3)) == 0,
            # the same object was just used on the same cloud with another soma; the column names handed over per call
            # (deprecated spelling of the constructor option)
            "other_soma_first": draw(st.integers(0, 3)) == 0, "names_per_call": draw(st.integers(0, 4)) == 0,
            # how the caller writes the soma position down: a float array, or whole numbers as a list / tuple of Python
            # ints or an integer array (next to a floating-point cloud)
            # the soma lies a few thousandths of a unit beside one of the cloud's points (wherever the cloud lies)
            "soma_beside_a_point": draw(st.integers(0, 5)) == 0,
            # the caller's array object was used for an earlier cloud (same shape), refilled in place, and is handed over again
            "buffer_refilled": draw(st.integers(0, 3)) == 0,
            "soma_form": draw(st.sampled_from(["float-array", "float-array", "float-list", "int-list", "int-tuple", "int64-array", "int32-array"]))}


def _points(case):
    """Distinct lattice points + irrational jitter, a pure function of the case."""
    rs = np.random.RandomState(case["seed"])
    n = case["n"]
    seen, pts = set(), []
    span = 40 if case["clustered"] else 200
    while len(pts) < n:
        p = tuple(int(v) for v in rs.randint(-span, span + 1, 3))
        if p in seen:
            continue
        seen.add(p)
        pts.append(p)
    dtype = case.get("dtype", "float64")
    if dtype.startswith("int"):
        # integer coordinates: a wide lattice so that exact ties between candidate edges are rare (detected and skipped)
        wide = rs.randint(-3000, 3001, (n, 3)) if not case["clustered"] else rs.randint(-300, 301, (n, 3))
        out, seen = [], set()
        for p in wide.tolist():
            while tuple(p) in seen:
                p[0] += 1
            seen.add(tuple(p))
            out.append(p)
        out = np.array(out, dtype=np.int64)
        if case.get("far"):
            out = out + np.array(case["far"], dtype=np.int64)
        return out.astype(dtype)
    P = np.array(pts, dtype=np.float64) / 4.0
    jitter = (rs.rand(n, 3) - 0.5) * 0.05 * np.sqrt(2.0)
    out = P + jitter
    if case.get("far"):
        out = out.astype(dtype).astype(np.float64) + np.array(case["far"], dtype=np.float64)  # exact shift of the stored values
    return out.astype(dtype)


def ref_greedy(P, bf, k, excl, tie=1e-9):
    n = len(P)
    D = np.linalg.norm(P.reshape((-1, 1, 3)) - P.reshape((1, -1, 3)), axis=2)
    pid = [-1] * n
    acc = [0.0] * n
    conn = [0]
    cnt = [0] * n
    sat = set()
    amb = False
    un = set(range(1, n))
    while un:
        best = second = None
        for i in conn:
            if i in sat:
                continue
            base = bf * acc[i]
            for j in un:
                c = D[i, j] + base
                if best is None or c < best[0]:
                    second, best = best, (c, i, j)
                elif second is None or c < second[0]:
                    second = (c, i, j)
        if best is None:
            return pid, amb, "no unsaturated connected point left"
        c, i, j = best
        if second is not None and abs(second[0] - c) < tie * (1 + c):
            amb = True
        pid[j] = i
        acc[j] = acc[i] + D[i, j]
        conn.append(j)
        un.discard(j)
        cnt[i] += 1
        if k != -1 and cnt[i] >= k and (not excl or i != 0):
            sat.add(i)
    return pid, amb, None


def prim_weight(P):
    n = len(P)
    D = np.linalg.norm(P[:, None] - P[None], axis=2)
    inside = [False] * n
    best = [float("inf")] * n
    best[0] = 0.0
    total = 0.0
    par = [-1] * n
    for _ in range(n):
        u = min((i for i in range(n) if not inside[i]), key=lambda i: best[i])
        inside[u] = True
        total += best[u]
        for v in range(n):
            if not inside[v] and D[u, v] < best[v]:
                best[v] = D[u, v]
                par[v] = u
    return total, par


def run_cloud(case, ctx):
    from swcgeom.transforms import PointsToCuntzMST, PointsToMST

    P = _points(case)
    soma = case["soma"]
    dtype = case.get("dtype", "float64")
    is_int = dtype.startswith("int")
    if case.get("soma_beside_a_point") and not is_int:
        j = case["seed"] % len(P)
        soma = (np.asarray(P[j], dtype=np.float64) + np.array([0.00390625, 0.0, -0.001953125])).tolist()
        case = dict(case, soma_form="float-array")
        ctx.cls("soma-a-few-thousandths-beside-a-cloud-point")
    soma_arg = None
    if soma is not None:
        soma = np.array([round(v * 50) for v in soma], dtype=dtype) if is_int else np.array(soma, dtype=np.float64)
        soma_arg = soma
        if case.get("soma_beside_a_point") and not is_int:
            soma = soma_arg = np.asarray(soma, dtype=np.float64)
        form = case.get("soma_form", "float-array")
        if not is_int and form != "float-array":
            if form == "float-list":
                soma_arg = [float(v) for v in soma]
            else:
                whole = [int(round(float(v))) for v in soma]  # a whole-number position (distinct from the jittered cloud points)
                soma = np.array(whole, dtype=np.float64)
                soma_arg = whole if form == "int-list" else tuple(whole) if form == "int-tuple" else \
                    np.array(whole, dtype=np.int64 if form == "int64-array" else np.int32)
                ctx.cls("soma-given-as-whole-numbers-beside-a-float-cloud")
            ctx.cls("soma-form:" + form)
    # the library measures distances in the array's own precision: ties closer than that are not decidable
    tie = 1e-5 if dtype == "float32" else 1e-9
    full = (np.concatenate([[soma], P]) if soma is not None else P).astype(np.float64)
    n = len(full)
    ctx.cls("dtype:" + dtype)
    k, excl, sort, which = case["k"], case["exclude_soma"], case["sort"], case["which"]
    bf = float(np.clip(case["bf"], 0, 1)) if which == "cuntz" else 0.0
    ctx.cls("which:" + which, f"limit:{k}", "soma-given" if soma is not None else "first-point-is-root",
            "sort" if sort else "nosort", "exclude-soma" if excl else "include-soma",
            "bf-clipped" if which == "cuntz" and not 0 <= case["bf"] <= 1 else "bf-in-range")
    if which == "cuntz":
        if 0 <= case["bf"] <= 1:
            tr = PointsToCuntzMST(bf=case["bf"], furcations=k, exclude_soma=excl, sort=sort)
        else:
            # a factor outside [0, 1] is outside the statement's range: clipping it (as the library does) is judged as the
            # clipped factor, refusing it loudly is not judged
            try:
                tr = PointsToCuntzMST(bf=case["bf"], furcations=k, exclude_soma=excl, sort=sort)
            except Exception:  # noqa
                ctx.ambiguous("balancing-factor-outside-the-range-refused")
                return
    elif case.get("legacy_kw"):
        tr = PointsToMST(k_furcations=k, exclude_soma=excl, sort=sort)  # deprecated spelling of the same limit
        ctx.cls("limit-through-deprecated-keyword")
    else:
        tr = PointsToMST(k, exclude_soma=excl, sort=sort)
    if case.get("far"):
        ctx.cls("far-from-origin")
    if case.get("n", 0) % 4 == 0:
        # the same object first refused an unusable argument (a cloud of the wrong shape, an empty cloud); the caller caught
        # the error and goes on
        for bad in (np.zeros((5, 2)), np.zeros((0, 3)), np.zeros(7)):
            try:
                tr(bad)
            except Exception:  # noqa
                pass
        ctx.cls("transform-object-used-after-a-refused-call")
    if case.get("reused"):
        # the same object on a small cloud first (three points), then on this one
        small = np.array([[0.0, 0.0, 0.0], [1.0, 0.25, 0.0], [0.0, 2.0, 0.5], [3.0, 3.0, 3.0]])
        ctx.lib(f"{which}/build", tr, small)
        ctx.cls("transform-object-reused")
    if case.get("other_soma_first") and soma is not None and not is_int:
        ctx.lib(f"{which}/build", tr, P.copy(), np.asarray(soma, dtype=np.float64) + np.array([7.5, -3.25, 11.0]))
        ctx.cls("same-object-same-cloud-another-soma-before")
    if case.get("buffer_refilled"):
        real = P.copy()
        P[...] = (real[::-1] * 3 + 2).astype(P.dtype)  # the earlier cloud, held by the very same array object
        try:
            tr(P) if soma is None else tr(P, soma_arg)
        except Exception:  # noqa - only the call on the refilled buffer is judged
            pass
        P[...] = real
        ctx.cls("caller's-array-object-used-before-and-refilled")
    snapshot = P.copy()
    args = (P,) if soma is None else (P, soma_arg)
    kwargs = {}
    if case.get("names_per_call"):
        from swcgeom.core.swc_utils import SWCNames

        kwargs = {"names": SWCNames()}
        ctx.cls("column-names-given-per-call")
    if is_int:
        # the signature annotates a floating array: a loud refusal of integer coordinates is not judged, a silently
        # different tree is
        try:
            out = tr(*args, **kwargs)
        except Exception:  # noqa
            ctx.ambiguous("integer-cloud-refused")
            return
    else:
        out = ctx.lib(f"{which}/build", lambda: tr(*args, **kwargs))
    ctx.check(np.array_equal(P, snapshot), f"{which}/input-unchanged", "the point array was modified")

    ids, pids = [int(v) for v in out.id()], [int(v) for v in out.pid()]
    ctx.check(len(ids) == n, f"{which}/every-point-exactly-once", f"{len(ids)} nodes for {n} points")
    reason = models.wellformed(ids, pids, require_sorted=sort)
    ctx.check(reason is None, f"{which}/single-well-formed-tree", reason)
    got_xyz = np.stack([out.x(), out.y(), out.z()], axis=1)
    want32 = full.astype(np.float32)
    key = lambda a: sorted(map(tuple, a.tolist()))  # noqa
    ctx.check(key(got_xyz) == key(want32), f"{which}/every-point-exactly-once",
              "the multiset of positions differs from the input")
    ctx.check(np.array_equal(got_xyz[0], want32[0]), f"{which}/rooted-at-soma-or-first-point",
              lambda: f"root at {got_xyz[0].tolist()}, expected {want32[0].tolist()}")
    ctx.check(int(out.type()[0]) == 1, f"{which}/root-typed-soma", f"type {out.type()[0]}")
    # the caller goes on using its buffer (fills it with the next cloud): the tree built from the old content keeps it
    P[...] = (P[::-1] * 2 + 1).astype(P.dtype)
    again = np.stack([out.x(), out.y(), out.z()], axis=1)
    ctx.check(np.array_equal(again, got_xyz), f"{which}/tree-keeps-its-points-when-the-caller-reuses-the-buffer",
              "the tree's coordinates changed when the input array was overwritten afterwards")
    # map result nodes to input indices through positions (distinct by construction)
    pos_to_idx = {tuple(p): i for i, p in enumerate(want32.tolist())}
    if len(pos_to_idx) != n:
        ctx.ambiguous("points-coincide-in-float32")
        return
    idx = [pos_to_idx[tuple(p)] for p in got_xyz.tolist()]
    # (which row a given input point gets is not part of the statement, with sort on or off: nodes are identified by position)
    par = [-1] * n
    for node, p in enumerate(pids):
        par[idx[node]] = -1 if p == -1 else idx[p]
    ch = models.children(par)
    deg = [len(c) for c in ch]
    D = np.linalg.norm(full[:, None] - full[None], axis=2)
    length = sum(D[i, par[i]] for i in range(n) if par[i] != -1)

    mst_w, mst_par = prim_weight(full)
    mst_deg = [0] * n
    for i, p in enumerate(mst_par):
        if p != -1:
            mst_deg[p] += 1
    if k != -1:
        worst = max((deg[i] for i in range(n) if not (excl and i == 0)), default=0)
        ctx.check(worst <= k, f"{which}/branching-limit",
                  lambda: f"a node has {worst} children with limit {k} (exclude_soma={excl}); parents {par}")
        limit_bites = any(mst_deg[i] > k for i in range(n) if not (excl and i == 0))
        ctx.cls("limit-bites" if limit_bites else "limit-idle")
    else:
        limit_bites = False
    if bf == 0 and k == -1:
        ctx.cls("plain-mst")
        ctx.check(abs(length - mst_w) <= tie * (1 + mst_w), f"{which}/total-length-is-minimal",
                  lambda: f"length {length!r}, minimum spanning tree weight {mst_w!r} ({n} points)")
    else:
        ctx.check(length >= mst_w * (1 - 1e-9), f"{which}/not-shorter-than-the-mst", f"{length} < {mst_w}")

    want_par, amb, err = ref_greedy(full, bf, k, excl, tie)
    if err:
        ctx.ambiguous("reference-greedy-stuck")
        return
    if amb:
        ctx.ambiguous("near-tie-in-a-greedy-step")
        ctx.nontrivial(False)
        return
    ctx.check(par == want_par, f"{which}/each-point-attached-to-the-cost-minimising-connected-point",
              lambda: f"bf={bf} k={k} exclude_soma={excl} n={n}: parents {par} != greedy {want_par}")
    base_par, amb0, _ = ref_greedy(full, 0.0, k, excl, tie)
    bf_visible = bf > 0 and not amb0 and base_par != want_par
    if which == "cuntz" and bf > 0:
        ctx.cls("bf-visible" if bf_visible else "bf-invisible")
    ctx.nontrivial(n >= 8 and (bf_visible or limit_bites or (bf == 0 and k == -1)))


# ----------------------------------------------------------------------------- limits of hundreds of children
def ref_greedy_np(P, bf, k, excl, tie):
    """The same greedy as ref_greedy, one matrix operation per step (for clouds of hundreds of points)."""
    n = len(P)
    D = np.linalg.norm(P[:, None] - P[None], axis=2)
    pid = np.full(n, -1)
    acc = np.zeros(n)
    conn = np.zeros(n, dtype=bool)
    conn[0] = True
    sat = np.zeros(n, dtype=bool)
    cnt = np.zeros(n, dtype=np.int64)
    amb = False
    for _ in range(n - 1):
        rows = conn & ~sat
        if not rows.any():
            return pid.tolist(), amb, "no unsaturated connected point left"
        C = D + bf * acc[:, None]
        C[~rows, :] = np.inf
        C[:, conn] = np.inf
        flat = C.ravel()
        a = int(np.argmin(flat))
        c = float(flat[a])
        two = np.partition(flat, 1)[:2]
        if np.isfinite(two[1]) and abs(float(two[1]) - c) < tie * (1 + c):
            amb = True
        i, j = divmod(a, n)
        pid[j] = i
        acc[j] = acc[i] + D[i, j]
        conn[j] = True
        cnt[i] += 1
        if k != -1 and cnt[i] >= k and (not excl or i != 0):
            sat[i] = True
    return pid.tolist(), amb, None


@st.composite
def wide_strategy(draw, tier):
    return {"n": draw(st.integers(300, 460)), "seed": draw(st.integers(0, 2 ** 31 - 1)), "clustered": draw(st.booleans()),
            "k": draw(st.sampled_from([256, 256, 300, 255, 257, 128])), "bf": draw(st.sampled_from([1.0, 1.0, 0.97])),
            "exclude_soma": draw(st.sampled_from([False, False, True])), "sort": draw(st.booleans()),
            "soma": draw(st.sampled_from([None, [0.3, -0.7, 1.1]]))}


def wide_cases(tier):
    import os
    import random

    rnd = random.Random(int(os.environ.get("VERIF_SEED", "1") or 1) * 7919 + 17)
    for rep in range(1 if tier == "quick" else 6):
        for k in (256, 300, 255, 257, 128):
            for excl in (False, False, True):
                yield {"n": rnd.randrange(300, 461), "seed": rnd.randrange(2 ** 31 - 1), "clustered": bool(rnd.randrange(2)), "k": k,
                       "bf": rnd.choice([1.0, 1.0, 0.97]), "exclude_soma": excl, "sort": bool(rnd.randrange(2)),
                       "soma": rnd.choice([None, [0.3, -0.7, 1.1]])}


def run_wide(case, ctx):
    """Balancing factor (near) 1: every point prefers the root, so a limit of some hundreds of children is what shapes the
    tree - the limit has to hold and the greedy has to move on to the next best connected point."""
    from swcgeom.transforms import PointsToCuntzMST

    P = _points(dict(case, dtype="float64"))
    soma = None if case["soma"] is None else np.array(case["soma"], dtype=np.float64)
    full = np.concatenate([[soma], P]) if soma is not None else P
    n = len(full)
    k, excl, bf = case["k"], case["exclude_soma"], case["bf"]
    tr = PointsToCuntzMST(bf=bf, furcations=k, exclude_soma=excl, sort=case["sort"])
    out = ctx.lib("cuntz/build", lambda: tr(P.copy()) if soma is None else tr(P.copy(), soma))
    ctx.cls(f"limit:{k}", "exclude-soma" if excl else "include-soma")
    ids, pids = [int(v) for v in out.id()], [int(v) for v in out.pid()]
    ctx.check(len(ids) == n, "wide/every-point-exactly-once", f"{len(ids)} nodes for {n} points")
    reason = models.wellformed(ids, pids, require_sorted=case["sort"])
    ctx.check(reason is None, "wide/single-well-formed-tree", reason)
    got_xyz = np.stack([out.x(), out.y(), out.z()], axis=1)
    want32 = full.astype(np.float32)
    pos_to_idx = {tuple(p): i for i, p in enumerate(want32.tolist())}
    if len(pos_to_idx) != n:
        ctx.ambiguous("points-coincide-in-float32")
        return
    ctx.check(sorted(map(tuple, got_xyz.tolist())) == sorted(pos_to_idx), "wide/every-point-exactly-once", "positions differ from the input")
    idx = [pos_to_idx[tuple(p)] for p in got_xyz.tolist()]
    par = [-1] * n
    for node, p in enumerate(pids):
        par[idx[node]] = -1 if p == -1 else idx[p]
    deg = np.bincount([p for p in par if p != -1], minlength=n)
    worst = int(max((deg[i] for i in range(n) if not (excl and i == 0)), default=0))
    binds = n - 1 > k and not excl
    ctx.cls("limit-binds" if binds else "limit-idle")
    ctx.nontrivial(binds)
    ctx.check(worst <= k, "wide/branching-limit", lambda: f"a node has {worst} children with limit {k} (exclude_soma={excl}, {n} points)")
    want_par, amb, err = ref_greedy_np(full, bf, k, excl, 1e-9)
    if err or amb:
        ctx.ambiguous("near-tie-or-stuck-reference")
        return
    bad = [i for i in range(n) if par[i] != want_par[i]]
    ctx.check(not bad, "wide/each-point-attached-to-the-cost-minimising-connected-point",
              lambda: f"bf={bf} k={k} exclude_soma={excl} n={n}: {len(bad)} points differ, first {bad[0]}: parent {par[bad[0]]} vs {want_par[bad[0]]}")


SUBCHECKS = [
    Enumerate("wide", wide_cases, run_wide, shards_quick=8, shards_thorough=16,
              required={"limit-binds": 4, "limit:256": 2}, exhaustive=False),
    Sub("cloud", cloud_strategy, run_cloud, quick=6000, thorough=40000, shards_quick=8,
        required={"which:mst": 200, "which:cuntz": 400, "limit:-1": 200, "limit:1": 100, "limit:2": 200, "limit:3": 100,
                  "soma-given": 300, "first-point-is-root": 200, "bf-visible": 150, "limit-bites": 100, "plain-mst": 40,
                  "bf-clipped": 50, "sort": 300, "nosort": 300, "dtype:float32": 200, "dtype:int32": 200, "dtype:int64": 200, "far-from-origin": 300,
                  "transform-object-reused": 300, "limit-through-deprecated-keyword": 60,
                  "same-object-same-cloud-another-soma-before": 150, "column-names-given-per-call": 300,
                  "soma-given-as-whole-numbers-beside-a-float-cloud": 300, "transform-object-used-after-a-refused-call": 500, "soma-a-few-thousandths-beside-a-cloud-point": 300,
                  "caller's-array-object-used-before-and-refilled": 600}),
]
