"""C06 — Subtree extraction and pruning keep exactly the specified nodes."""
import math

import numpy as np
from hypothesis import strategies as st

from vlib import gen_tree, models
from vlib.harness import Sub

PROPERTY = "C06"
RULE = (
    "Tagged trees (lattice coordinates, types 0-7, permuted numbering in half the cases) and one "
    "operation with generated arguments: get_subtree / Node.subtree (any start node), to_subtree (any "
    "removal multiset, root included), cut_tree enter / leave with a per-node decision table, "
    "CutByType (present or absent type) and the axon/dendrite aliases, CutByFurcationOrder(k in "
    "0..5), CutShortTipBranch(threshold derived from the tree's own terminal-branch lengths), "
    "get_neurites / get_dendrites. Oracle: the survivor set computed by the parent-pointer reference "
    "model, compared through tags; all columns, parent relation and new->old mapping (list and dict "
    "forms, handed in empty or still holding an earlier call's mapping) checked per survivor; removal ids handed over "
    "as list / tuple / set / ndarray / generator / iterator / chain. Non-trivial: n >= 5, the operation removes >= 1 and keeps >= 2 "
    "nodes, and some kept node has a removed child."
)
ASSUMPTIONS = [
    "CutShortTipBranch: a terminal branch whose length is within 1e-4 (relative) of the threshold may go either way (counted as ambiguous)",
    "CutByFurcationOrder: order of a node = number of furcation nodes on the path from the root's child down to the node, inclusive (the root itself does not count), as the implementation documents",
]

OPS = ["get_subtree", "node_subtree", "to_subtree", "cut_enter", "cut_leave", "cut_none", "by_type",
       "axon", "dendrite", "furcation_order", "short_tip", "neurites", "dendrites"]


@st.composite
def case_strategy(draw, tier):
    max_n = 25 if tier == "quick" else 120
    op = draw(st.sampled_from(OPS))
    t = draw(gen_tree.tree_case(min_n=1, max_n=max_n, regimes=["lattice", "coincident"],
                                soma_root=True if op in ("neurites", "dendrites") else None))
    n = len(t["parents"])
    case = {"tree": t, "op": op}
    if op in ("get_subtree", "node_subtree"):
        case["start"] = draw(st.integers(0, n - 1))
        case["mapping"] = draw(st.sampled_from(["list", "dict", "none"]))
        # the container handed in may already hold the mapping of an earlier call (any other start node)
        case["prefill"] = draw(st.sampled_from([None, None, "call", "junk"]))
        case["prev_start"] = draw(st.integers(0, n - 1))
    elif op == "to_subtree":
        k = draw(st.integers(0, min(n, 6)))
        case["removals"] = [draw(st.integers(0 if draw(st.integers(0, 9)) == 0 else min(1, n - 1), n - 1))
                            for _ in range(k)]
        case["mapping"] = draw(st.sampled_from(["list", "dict", "none"]))
        case["prefill"] = draw(st.sampled_from([None, None, "call", "junk"]))
        case["prev_start"] = draw(st.integers(0, n - 1))
        # `removals` is documented as an iterable of ids: containers and one-shot iterators alike
        case["removals_as"] = draw(st.sampled_from(["list", "tuple", "set", "ndarray", "generator", "iter", "chain"]))
    elif op in ("cut_enter", "cut_leave"):
        dens = draw(st.sampled_from([0.05, 0.15, 0.4]))
        case["flags"] = [draw(st.floats(0, 1)) < dens for _ in range(n)]
        if draw(st.integers(0, 5)) > 0:
            case["flags"][0] = False
        # what the callbacks hand up / down as their state: distinct tuples, small integers around zero (depth offsets), or
        # values that look like markers (-2, -1, 0, None, False, "")
        case["state_kind"] = draw(st.sampled_from(["tuple", "tuple", "int-offset", "markers"]))
    elif op == "by_type":
        case["type"] = draw(st.integers(0, 8))
    elif op == "furcation_order":
        case["k"] = draw(st.integers(0, 5))
    elif op == "short_tip":
        # an earlier call of the same transform object was aborted by an exception raised in the user's callback
        case["aborted_before"] = draw(st.integers(0, 3)) == 0
        case["thre_sel"] = draw(st.integers(0, 10 ** 6))
        case["thre_mul"] = draw(st.sampled_from([0.5, 0.9, 1.0, 1.1, 2.0, 100.0]))
    # transform objects (Cut*) may have been used on another tree before
    case["reused"] = draw(st.integers(0, 2)) == 0
    return case


def _decoy_tree():
    """A small tree every Cut* transform has something to do on (used to 'wear in' a transform object)."""
    from swcgeom.core import Tree

    pid = np.array([-1, 0, 1, 1, 0, 4, 4, 6], dtype=np.int32)
    n = len(pid)
    return Tree(n, id=np.arange(n, dtype=np.int32), pid=pid, type=np.array([1, 2, 2, 3, 3, 3, 2, 3], dtype=np.int32),
                x=np.arange(n, dtype=np.float32), y=np.array([0, 1, 2, 0, -1, -2, -1, -3], dtype=np.float32),
                z=np.zeros(n, dtype=np.float32), r=np.ones(n, dtype=np.float32),
                tag=np.arange(900, 900 + n, dtype=np.int32), w=np.zeros(n, dtype=np.float32))


def _worn(tr, case, ctx):
    if case.get("reused"):
        tr(_decoy_tree())
        tr(_decoy_tree())
        ctx.cls("transform-object-reused")
    return tr


def _float_len(xyz32, a, b):
    return float(np.linalg.norm(xyz32[a].astype(np.float64) - xyz32[b].astype(np.float64)))


def _terminal_branches(t):
    """(furcation, child-chain ids [c .. tip], length) for terminal branches starting at a furcation."""
    parents = t["parents"]
    ch = models.children(parents)
    xyz = np.stack([np.array(t[c], dtype=np.float32) for c in "xyz"], axis=1)
    out = []
    for f in range(len(parents)):
        if len(ch[f]) < 2:
            continue
        for c in ch[f]:
            chain = [c]
            while len(ch[chain[-1]]) == 1:
                chain.append(ch[chain[-1]][0])
            if len(ch[chain[-1]]) == 0:
                ids = [f] + chain
                length = sum(_float_len(xyz, a, b) for a, b in zip(ids[:-1], ids[1:]))
                out.append((f, chain, length))
    return out


def _verify(ctx, t, out, survivors, op, mapping=None, new_root=None):
    """Compare result tree `out` with the expected survivor id set (original ids)."""
    parents = t["parents"]
    surv_tags = sorted(t["tag"][i] for i in survivors)
    got_tags = sorted(int(v) for v in out.get_ndata("tag")) if len(out) else []
    ctx.check(got_tags == surv_tags, f"{op}/survivor-set",
              lambda: f"kept tags {got_tags}, expected {surv_tags} (parents {parents}, tags {t['tag']})")
    if not survivors:
        ctx.check(len(out) == 0, f"{op}/empty-result", f"{len(out)} nodes")
        return
    reason = models.wellformed(out.id(), out.pid())
    ctx.check(reason is None, f"{op}/wellformed", reason)
    old_of_tag = {tg: i for i, tg in enumerate(t["tag"])}
    tags = [int(v) for v in out.get_ndata("tag")]
    pids = out.pid().tolist()
    for new, tg in enumerate(tags):
        old = old_of_tag[tg]
        p = parents[old]
        want = -1 if (p == -1 or p not in survivors) else t["tag"][p]
        got = -1 if pids[new] == -1 else tags[pids[new]]
        ctx.check(want == got, f"{op}/parent-relation",
                  lambda: f"node tagged {tg}: parent tag {got}, expected {want}")
        for col in ("type", "x", "y", "z", "r", "w"):
            ctx.check(float(out.get_ndata(col)[new]) == float(np.float32(t[col][old])),
                      f"{op}/attributes-kept", f"column {col} of node tagged {tg}")
        if mapping is not None:
            mv = mapping.get(new) if isinstance(mapping, dict) else \
                (mapping[new] if new < len(mapping) else None)
            ctx.check(mv is not None and int(mv) == old, f"{op}/mapping",
                      lambda: f"mapping[{new}] = {mv}, node is old id {old}")
    if mapping is not None:
        ctx.check(len(mapping) == len(tags), f"{op}/mapping", f"mapping has {len(mapping)} entries")
    if new_root is not None:
        ctx.check(tags[0] == t["tag"][new_root], f"{op}/root", "node 0 is not the requested start node")


def _nontrivial(ctx, t, survivors):
    parents = t["parents"]
    n = len(parents)
    removed = set(range(n)) - set(survivors)
    ctx.nontrivial(n >= 5 and len(removed) >= 1 and len(survivors) >= 2 and
                   any(parents[i] in survivors for i in removed))
    if not survivors:
        ctx.cls("empty-result")
    if not removed:
        ctx.cls("nothing-removed")


def _mapping_container(case, tree, ctx):
    """A fresh list / dict, or one that an earlier call (or the caller) has already filled."""
    from swcgeom.core import get_subtree

    kind = case["mapping"]
    if kind == "none":
        return None
    mp = [] if kind == "list" else {}
    pre = case.get("prefill")
    if pre == "call":
        get_subtree(tree, case["prev_start"], out_mapping=mp)
        ctx.cls("mapping:container-reused-from-an-earlier-call")
    elif pre == "junk":
        if kind == "list":
            mp.extend([10 ** 6 + i for i in range(len(tree) + 3)])
        else:
            mp.update({i: -7 for i in range(len(tree) + 3)})
        ctx.cls("mapping:container-prefilled")
    return mp


def _as_iterable(ids, how):
    import itertools

    if how == "tuple":
        return tuple(ids)
    if how == "set":
        return set(ids)
    if how == "ndarray":
        return np.array(ids, dtype=np.int64)
    if how == "generator":
        return (i for i in ids)
    if how == "iter":
        return iter(list(ids))
    if how == "chain":
        return itertools.chain(ids[: len(ids) // 2], ids[len(ids) // 2:])
    return list(ids)


class _Veto(Exception):
    pass


def run_case(case, ctx):
    from swcgeom.core import cut_tree, get_subtree, to_subtree
    from swcgeom.transforms import (CutAxonTree, CutByFurcationOrder, CutByType, CutDendriteTree,
                                    CutShortTipBranch)

    t, op = case["tree"], case["op"]
    parents = t["parents"]
    n = len(parents)
    ch = models.children(parents)
    tree = gen_tree.build_tree(t)
    before = {k: v.copy() for k, v in tree.ndata.items()}
    ctx.cls("op:" + op, *gen_tree.shape_classes(t))

    def no_removed_ancestor(flagged):
        keep = set()
        for i in models.topo_order(parents):
            if i in flagged:
                continue
            if parents[i] == -1 or parents[i] in keep:
                keep.add(i)
        return keep

    if op in ("get_subtree", "node_subtree"):
        s = case["start"]
        mp = _mapping_container(case, tree, ctx)
        if op == "get_subtree":
            out = get_subtree(tree, s, out_mapping=mp)
        else:
            out = tree.node(s).subtree(out_mapping=mp)
        surv = models.descendants_or_self(parents, s)
        _nontrivial(ctx, t, surv)
        # a subtree keeps the start node's descendants: the start node is the new root
        _verify(ctx, t, out, surv, op, mapping=mp, new_root=s)
    elif op == "to_subtree":
        mp = _mapping_container(case, tree, ctx)
        how = case.get("removals_as", "list")
        ctx.cls("removals-as:" + how)
        out = to_subtree(tree, _as_iterable(list(case["removals"]), how), out_mapping=mp)
        surv = no_removed_ancestor(set(case["removals"]))
        _nontrivial(ctx, t, surv)
        _verify(ctx, t, out, surv, op, mapping=mp)
    elif op in ("cut_enter", "cut_leave"):
        flags = case["flags"]
        flagged = {i for i, f in enumerate(flags) if f}
        surv = no_removed_ancestor(flagged)
        called = []
        errs = []
        kind = case.get("state_kind", "tuple")
        ctx.cls("callback-state:" + kind)
        depth = models.depth_list(parents)
        MARK = [-2, -1, 0, None, False, "", -3, 2, -2]

        def val(i):
            if kind == "int-offset":
                return depth[i] - 2 - (n % 3)
            if kind == "markers":
                return MARK[(i + n) % len(MARK)]
            return ("v", i)

        same = lambda a, b: a == b and type(a) is type(b)  # noqa
        if op == "cut_enter":
            def enter(node, pv):
                i = int(node.id)
                called.append(i)
                want = None if parents[i] == -1 else val(parents[i])
                if not same(pv, want):
                    errs.append(f"node {i} received {pv!r}, expected {want!r}")
                return val(i), flags[i]

            out = cut_tree(tree, enter=enter)
            ctx.check(not errs, f"{op}/callback-receives-parents-value", lambda: errs[0])
            # called exactly for the nodes with no flagged proper ancestor
            want_called = {i for i in range(n) if all(a not in flagged for a in models.ancestors(parents, i))}
            ctx.check(sorted(called) == sorted(want_called), f"{op}/callback-not-called-below-a-cut",
                      lambda: f"called for {sorted(called)}, expected {sorted(want_called)}")
        else:
            def leave(node, cvs):
                i = int(node.id)
                called.append(i)
                want = sorted(repr(val(c)) for c in ch[i])
                if sorted(repr(v) for v in cvs) != want:
                    errs.append(f"node {i} received {cvs!r}, expected {want!r}")
                return val(i), flags[i]

            out = cut_tree(tree, leave=leave)
            ctx.check(not errs, f"{op}/callback-receives-childrens-values", lambda: errs[0])
            ctx.check(sorted(called) == list(range(n)), f"{op}/callback-called-once-per-node",
                      lambda: f"called for {sorted(called)}")
        _nontrivial(ctx, t, surv)
        _verify(ctx, t, out, surv, op)
    elif op == "cut_none":
        out = cut_tree(tree)
        surv = set(range(n))
        _verify(ctx, t, out, surv, op)
        ctx.check(not any(np.shares_memory(out.ndata[k], tree.ndata[k]) for k in tree.ndata),
                  f"{op}/copy", "result shares storage with the input")
    elif op in ("by_type", "axon", "dendrite"):
        ty = case["type"] if op == "by_type" else 2 if op == "axon" else 3
        tr = CutByType(ty) if op == "by_type" else CutAxonTree() if op == "axon" else CutDendriteTree()
        out = _worn(tr, case, ctx)(tree)
        of_type = {i for i in range(n) if t["type"][i] == ty}
        surv = set(of_type)
        for i in of_type:
            surv.update(models.ancestors(parents, i))
        ctx.cls("type-present" if of_type else "type-absent")
        _nontrivial(ctx, t, surv)
        _verify(ctx, t, out, surv, op)
    elif op == "furcation_order":
        k = case["k"]
        out = _worn(CutByFurcationOrder(k), case, ctx)(tree)
        level = {}
        for i in models.topo_order(parents):
            if parents[i] == -1:
                level[i] = 0
            else:
                level[i] = level[parents[i]] + (1 if len(ch[i]) >= 2 else 0)
        surv = {i for i in range(n) if level[i] < k}
        ctx.cls(f"k={k}")
        _nontrivial(ctx, t, surv)
        _verify(ctx, t, out, surv, op)
    elif op == "short_tip":
        tbs = _terminal_branches(t)
        if tbs:
            base = tbs[case["thre_sel"] % len(tbs)][2]
            thre = base * case["thre_mul"] if base > 0 else 0.5 * case["thre_mul"]
        else:
            thre = 5.0 * case["thre_mul"]
        ambiguous = [tb for tb in tbs if abs(tb[2] - thre) <= 1e-4 * max(thre, 1e-6)]
        cb_calls = []
        armed = [False]

        def user_cb(br):
            if armed[0]:
                armed[0] = False
                raise _Veto()
            cb_calls.append([int(v) for v in br.origin_id()])

        cutter = _worn(CutShortTipBranch(thre, callback=user_cb), case, ctx)
        if case.get("aborted_before") and thre > 0:
            # a tree on which the transform finds several short tips; the user's callback vetoes the second one it is shown
            # by raising, the caller catches that and goes on using the object
            dec = _decoy_tree()
            for c in "xyz":
                dec.ndata[c][...] = dec.ndata[c] * np.float32(thre * 0.2)
            seen = [0]

            def count_then_raise(br):
                seen[0] += 1
                if seen[0] >= 2:
                    raise _Veto()

            cutter.callbacks.append(count_then_raise)
            try:
                cutter(dec)
            except _Veto:
                ctx.cls("transform-object-used-after-an-aborted-call")
            finally:
                if count_then_raise in cutter.callbacks:
                    cutter.callbacks.remove(count_then_raise)
        cb_calls.clear()
        out = cutter(tree)
        removed_min, removed_max = set(), set()
        expect_cb_min, expect_cb_max = [], []
        for tb in tbs:
            f, chain, length = tb
            if tb in ambiguous:
                removed_max.update(chain)
                expect_cb_max.append([f] + chain)
            elif length <= thre:
                removed_min.update(chain)
                removed_max.update(chain)
                expect_cb_min.append([f] + chain)
                expect_cb_max.append([f] + chain)
        if ambiguous:
            ctx.ambiguous("short_tip: terminal branch length within 1e-4 of the threshold")
            ctx.cls("short_tip:threshold-on-a-length")
            got_tags = set(int(v) for v in out.get_ndata("tag")) if len(out) else set()
            lo = {t["tag"][i] for i in range(n) if i not in removed_max}
            hi = {t["tag"][i] for i in range(n) if i not in removed_min}
            ctx.check(lo <= got_tags <= hi, f"{op}/survivor-set", lambda: f"kept {sorted(got_tags)}")
            removed_now = {i for i in range(n) if t["tag"][i] not in got_tags}
            surv = set(range(n)) - removed_now
        else:
            surv = set(range(n)) - removed_min
            ctx.check(sorted(cb_calls) == sorted(expect_cb_min), f"{op}/callback-once-per-removed-branch",
                      lambda: f"callback got {sorted(cb_calls)}, expected {sorted(expect_cb_min)}")
        if removed_min:
            ctx.cls("short_tip:removes")
        _nontrivial(ctx, t, surv)
        _verify(ctx, t, out, surv, op)
    elif op in ("neurites", "dendrites"):
        subs = list(tree.get_neurites() if op == "neurites" else tree.get_dendrites())
        roots = [c for c in ch[0] if op == "neurites" or t["type"][c] in (3, 4)]
        ctx.check(len(subs) == len(roots), f"{op}/count", f"{len(subs)} subtrees for {len(roots)} stems")
        got = sorted(int(s.get_ndata("tag")[0]) for s in subs)
        ctx.check(got == sorted(t["tag"][c] for c in roots), f"{op}/stems", "wrong stem nodes")
        for s in subs:
            c = t["tag"].index(int(s.get_ndata("tag")[0]))
            _verify(ctx, t, s, models.descendants_or_self(parents, c), op, new_root=c)
        ctx.nontrivial(n >= 5 and len(roots) >= 2)
    for k, v in before.items():
        ctx.check(np.array_equal(tree.ndata[k], v), f"{op}/input-unchanged", f"column {k} modified")


SUBCHECKS = [
    Sub("prune", case_strategy, run_case, quick=6000, thorough=40000, shards_quick=4,
        required={**{"op:" + o: 60 for o in OPS}, "empty-result": 20, "type-absent": 10,
                  "short_tip:removes": 20, "permuted": 200,
                  "mapping:container-reused-from-an-earlier-call": 30, "mapping:container-prefilled": 30,
                  "transform-object-reused": 100, "removals-as:generator": 6, "removals-as:iter": 10, "removals-as:chain": 10, "removals-as:ndarray": 10,
                  "callback-state:int-offset": 55, "callback-state:markers": 62, "transform-object-used-after-an-aborted-call": 40}),
]
