"""C01 — SWC write -> read round trip reproduces the tree."""
import decimal
import io
import os

import numpy as np
from hypothesis import strategies as st

from vlib import gen_tree, models
from vlib.harness import Sub

PROPERTY = "C01"
RULE = (
    "Well-formed trees of every shape class (single node, chains, stars, binary, forced root degree; "
    "deep chains from a seeded bulk generator) with coordinates and radii from the full finite float32 "
    "range (incl. +-0, subnormals, 1e38) or the dyadic lattice, types 0-255 and codes beyond a byte / a short up to 2^31-1; id_offset in {0, 1, small, 2^24 +- few, 1e9, 2^31-1-n, "
    "10^6}; source in {False, True with/without tree.source, explicit string}; comments on/off with "
    "generated printable text (empty, whitespace-only, leading blanks, non-ASCII); source kind in "
    "{text stream, byte stream, file path}. Oracle: round trip - same n, parents, types; x,y,z,r equal "
    "float32(Decimal(v).quantize(1e-4, HALF_EVEN)) recomputed with the decimal module; comments equal "
    "([source header, ''] if requested) + original comments, leading blanks aside; second round trip "
    "is a fixed point and adds exactly one source header. Non-trivial: n >= 3 with a furcation or "
    "depth >= 3, a coordinate not representable with 4 decimals, and (id_offset != 1 or non-empty "
    "comments or a non-text source)."
)
ASSUMPTIONS = [
    "comment text never contains line breaks and never starts with the column header 'id type x y z r pid' (the reader drops that line by design)",
    "the decimal module (context precision 80) is the reference for rounding to four decimals",
]

CTX = decimal.Context(prec=80, rounding=decimal.ROUND_HALF_EVEN)
Q = decimal.Decimal("0.0001")


def rounded32(v: float) -> np.float32:
    d = CTX.quantize(decimal.Decimal(float(np.float32(v))), Q)
    return np.float32(float(d))


def any_f32():
    return st.floats(width=32, allow_nan=False, allow_infinity=False)


COMMENT_CHARS = st.characters(blacklist_categories=("Cc", "Cs", "Zl", "Zp", "Cn"), blacklist_characters="\x85")


def comment():
    return st.one_of(
        st.sampled_from(["", " ", "  ", "\t", "note", "  indented", "# hash", "trailing  ", "x" * 60]),
        st.text(COMMENT_CHARS, max_size=16),
    ).filter(lambda s: not s.lstrip().startswith("id type") and not s.lstrip(" #").startswith("id type"))


# the type field is an integer: the standard codes, a byte's worth of custom ones, and lab-specific codes beyond a byte
# or a short (the tree stores int32)
TYPE = st.one_of(st.integers(0, 7), st.integers(0, 255), st.integers(0, 255),
                 st.sampled_from([256, 300, 1000, 32768, 65535, 65536, 2 ** 24 + 1, 2 ** 31 - 1]))
# id offsets: any value for which every shifted id still fits the format's 32-bit ids ("max" = 2**31 - 1 - n)
OFFSETS = [0, 1, 1, 2, 7, 1000, 10 ** 6, 10 ** 6, 2 ** 24 - 3, 2 ** 24 + 5, 10 ** 9, "max"]


@st.composite
def case_strategy(draw, tier):
    max_n = 20 if tier == "quick" else 120
    k = draw(st.integers(0, 40 if tier == "quick" else 20))
    if k == 0:
        # large neurons: the written text passes 64 KiB, 1 MiB and 2 MiB
        n = draw(st.sampled_from([1500, 2500, 26_000, 50_000] if tier == "quick" else [10_000, 26_000, 50_000, 120_000]))
        t = {"bulk": [draw(st.integers(0, 2 ** 31)), n,
                      draw(st.sampled_from(["chain", "caterpillar", "binary"])), "float"]}
    else:
        tt = draw(gen_tree.topology_case(min_n=1, max_n=max_n, permute=False))
        n = len(tt["parents"])
        regime = draw(st.sampled_from(["full-float32", "full-float32", "lattice", "small-float"]))
        if regime == "lattice":
            co = gen_tree.lattice_coord()
        elif regime == "small-float":
            co = st.floats(-100, 100, width=32)
        else:
            co = any_f32()
        t = {"parents": tt["parents"], "shape": tt["shape"], "regime": regime, "permuted": False,
             "x": [draw(co) for _ in range(n)], "y": [draw(co) for _ in range(n)],
             "z": [draw(co) for _ in range(n)],
             "r": [draw(co if regime == "full-float32" else gen_tree.radius()) for _ in range(n)],
             "type": [draw(TYPE) for _ in range(n)]}
    has_src = draw(st.booleans())
    return {
        "tree": t,
        "id_offset": draw(st.sampled_from(OFFSETS)),
        "source": draw(st.sampled_from([False, True, True, "explicit", "a file.swc", "ü"])),
        "tree_source": draw(st.sampled_from(["/data/n 1.swc", "orig"])) if has_src else "",
        "comments_on": draw(st.integers(0, 3)) > 0,
        "comments": draw(st.lists(comment(), max_size=4)),
        "kind": draw(st.sampled_from(["str", "bytes", "path"])),
        # byte streams / files in another encoding of the same text (read back with that encoding named)
        "encoding": draw(st.sampled_from(["utf-8", "utf-8", "utf-8", "utf-16", "utf-32", "utf-8-sig", "utf-16-le", "utf-32-be"])),
        # how the tree got its comments: handed to the constructor, or appended to a tree built without any - after another
        # comment-less tree (a decoy) was annotated in the same way
        "comments_via": draw(st.sampled_from(["constructor", "constructor", "appended"])),
        # the tree was already written once (in some form) with other coordinates and radii, and was then edited in place
        # (whole columns, slices, or node by node through handles) before the write that is judged
        # a comment that repeats the text of the writer's own source header, or one that occurs twice
        "echo": draw(st.sampled_from([None, None, None, "header", "header-twice", "duplicate"])),
        # the process has just failed to read another file part-way (the caller caught the error)
        "failed_read_before": draw(st.sampled_from([None, None, None, "rows-then-garbage", "truncated-row"])),
        "written_before": draw(st.sampled_from([None, None, "text", "path", "text-twice"])),
        "edit_via": draw(st.sampled_from(["column", "slices", "handles"])),
        # a stream handed over positioned at the start of the SWC text, with other material before that position
        "preamble": draw(st.sampled_from([None, None, None, "# banner of a container file\nnot a row at all\n",
                                          "1 1 9 9 9 9 -1\n2 3 8 8 8 8 1\n", "\n\n#\n"])),
    }


def _open(text_or_none, kind, ctx, tree, kw, name, encoding="utf-8", preamble=None):
    """Write with the requested source kind and return (something from_swc can read, the written text, read options)."""
    if preamble and kind != "path" and encoding == "utf-8":
        text = tree.to_swc(**kw)
        ctx.cls("stream-positioned-after-a-preamble")
        if kind == "str":
            f = io.StringIO(preamble + text)
            f.seek(len(preamble))  # StringIO positions count characters
        else:
            f = io.BytesIO((preamble + text).encode("utf-8"))
            f.seek(len(preamble.encode("utf-8")))
        return f, text, {}
    if kind == "path":
        path = os.path.join(ctx.tmpdir, name)
        ret = tree.to_swc(path, **kw)
        ctx.check(ret is None, "to_swc/path-returns-none", f"{ret!r}")
        with open(path, "r", encoding="utf-8", newline="") as f:
            content = f.read()
        if encoding != "utf-8":
            with open(path, "wb") as f:  # the same text stored in another encoding
                f.write(content.encode(encoding))
            return path, content, {"encoding": encoding}
        return path, content, {}
    text = tree.to_swc(**kw)
    if kind == "str":
        return io.StringIO(text), text, {}
    if encoding != "utf-8":
        return io.BytesIO(text.encode(encoding)), text, {"encoding": encoding}
    return io.BytesIO(text.encode("utf-8")), text, {}


def _strip(cs):
    return [c.lstrip() for c in cs]


def run_case(case, ctx):
    from swcgeom.core import Tree
    from swcgeom.core.swc_utils import read_swc

    t = gen_tree.materialize(case["tree"])
    parents = t["parents"]
    n = len(parents)
    if case.get("echo"):
        # comments that coincide with the header the writer adds (or with each other): every one of them comes back
        src_name = case["source"] if isinstance(case["source"], str) else (case["tree_source"] or "Unknown")
        extra = {"header": [f"source: {src_name}"], "header-twice": [f"source: {src_name}", f" source: {src_name}"],
                 "duplicate": ["measured twice", "measured twice"]}[case["echo"]]
        pos = len(case["comments"]) // 2
        case = dict(case, comments=case["comments"][:pos] + extra + case["comments"][pos:])
        ctx.cls("comment-equal-to-the-source-header-or-to-another-comment")
    if case.get("failed_read_before"):
        from vlib import gen_swc

        gen_swc.fail_some_reads(ctx.tmpdir, case["failed_read_before"], ("str", "path") if case["kind"] != "bytes" else ("path",))
        ctx.cls("read-after-a-failed-read")
    via = case.get("comments_via", "constructor")
    if via == "appended":
        decoy = gen_tree.build_tree({"parents": [-1, 0], "x": [0.0, 1.0], "y": [0.0, 0.0], "z": [0.0, 0.0], "r": [1.0, 1.0], "type": [1, 3]},
                                    extras=False)
        decoy.comments.append("a note on another neuron")
        tree = gen_tree.build_tree(t, extras=False, source=case["tree_source"], comments=None)
        ctx.check(list(tree.comments) == [], "comments/a-new-tree-has-none", lambda: f"{tree.comments!r}")
        tree.comments.extend(case["comments"])
        ctx.cls("comments-appended-after-construction")
    else:
        tree = gen_tree.build_tree(t, extras=False, source=case["tree_source"], comments=list(case["comments"]))
    if case.get("written_before") and n <= 400:
        # what is judged below is the text of the tree as it is *now*: built with other numbers, written, then edited
        earlier = {c: [float(np.float32(v) * np.float32(0.5) + np.float32(1.25)) if np.isfinite(np.float32(v) * np.float32(0.5)) else 0.0
                       for v in t[c]] for c in "xyzr"}
        for c in "xyzr":
            tree.get_ndata(c)[:] = np.array(earlier[c], dtype=np.float32)
        how = case["written_before"]
        for _ in range(2 if how == "text-twice" else 1):
            if how == "path":
                tree.to_swc(os.path.join(ctx.tmpdir, "earlier.swc"))
            else:
                tree.to_swc()
        for c in "xyzr":
            target = np.array(t[c], dtype=np.float32)
            if case["edit_via"] == "column":
                tree.get_ndata(c)[:] = target
            elif case["edit_via"] == "slices":
                h = n // 2
                tree.get_ndata(c)[:h] = target[:h]
                tree.ndata[c][h:] = target[h:]
            else:
                for i in range(n):
                    setattr(tree.node(i) if i % 2 else tree[i], c, target[i])
        ctx.cls("written-before-then-edited-in-place")
    id_offset = case["id_offset"] if case["id_offset"] != "max" else 2 ** 31 - 1 - n
    case = dict(case, id_offset=id_offset)
    kw = {"id_offset": id_offset, "source": case["source"], "comments": case["comments_on"]}
    depth = max(models.depth_list(parents))
    has_furc = any(len(c) >= 2 for c in models.children(parents))
    inexact = any(float(rounded32(v)) != float(np.float32(v)) for c in "xyzr" for v in t[c][:50])
    if id_offset + n > 2 ** 24:
        ctx.cls("ids-beyond-2^24")
    if any(v > 255 for v in t["type"][:2000]):
        ctx.cls("type-code-beyond-a-byte")
    ctx.cls("kind:" + case["kind"], "regime:" + t["regime"], f"offset:{case['id_offset'] if id_offset < 2 ** 24 - 3 else 'large'}",
            "source:" + (str(case["source"]) if isinstance(case["source"], bool) else "string"),
            "comments-on" if case["comments_on"] else "comments-off")
    if n == 1:
        ctx.cls("single-node")
    if n >= 1000:
        ctx.cls("deep-or-large")
    if case["comments_on"] and any(c.isspace() or c == "" for c in case["comments"]):
        ctx.cls("blank-comment")
    if case["comments_on"] and any(ord(ch) > 127 for c in case["comments"] for ch in c):
        ctx.cls("non-ascii-comment")
    ctx.nontrivial(n >= 3 and (has_furc or depth >= 3) and inexact and
                   (case["id_offset"] != 1 or (case["comments_on"] and case["comments"]) or case["kind"] != "str"))

    enc = case.get("encoding", "utf-8") if case["kind"] != "str" else "utf-8"
    src, content, rkw = _open(None, case["kind"], ctx, tree, kw, "a.swc", enc, case.get("preamble"))
    text = tree.to_swc(**kw)
    ctx.check(content == text, "to_swc/file-content-equals-string-form", "file differs from returned string")
    if rkw:
        ctx.cls("stored-as:" + enc)
    if len(text) > 2 ** 20:
        ctx.cls("text-longer-than-1MiB")
    back = Tree.from_swc(src, **rkw)

    # the text itself: one row per node, ids shifted by the requested offset, the root keeps -1
    rows = [ln.split() for ln in text.split("\n") if ln and not ln.startswith("#")]
    ctx.check(len(rows) == n and all(len(r) == 7 for r in rows), "text/one-row-per-node",
              f"{len(rows)} rows for {n} nodes")
    off = case["id_offset"]
    ctx.check([r[0] for r in rows] == [str(i + off) for i in range(n)], "text/ids-use-the-offset",
              lambda: f"ids {[r[0] for r in rows][:10]} with offset {off}")
    ctx.check([r[6] for r in rows] == [str(p + off) if p != -1 else "-1" for p in parents],
              "text/parents-use-the-offset", lambda: f"pids {[r[6] for r in rows][:10]} with offset {off}")

    def compare(back, label):
        ctx.check(len(back) == n, f"{label}/node-count", f"{len(back)} != {n}")
        ctx.check(back.id().tolist() == list(range(n)), f"{label}/ids", "ids are not 0..n-1")
        ctx.check(back.pid().tolist() == parents, f"{label}/parents",
                  lambda: f"{back.pid().tolist()[:30]} != {parents[:30]}")
        ctx.check(back.type().tolist() == t["type"], f"{label}/types", "types differ")
        for col in "xyzr":
            want = np.array([rounded32(v) for v in t[col]], dtype=np.float32)
            got = back.get_ndata(col)
            ok = got.dtype == np.float32 and np.array_equal(got, want)
            if not ok:
                bad = int(np.nonzero(got != want)[0][0]) if len(got) == len(want) else -1
                ctx.fail(f"{label}/values-rounded-to-4-decimals",
                         f"column {col}[{bad}]: wrote {t[col][bad]!r}, read {got[bad]!r}, expected {want[bad]!r}")

    compare(back, "roundtrip")
    header = []
    if case["source"] is not False:
        s = case["source"] if isinstance(case["source"], str) else (case["tree_source"] or "Unknown")
        header = [f"source: {s}", ""]
    want_comments = header + (_strip(case["comments"]) if case["comments_on"] else [])
    got_comments = _strip(back.comments)
    if got_comments != want_comments:
        extra = [c for c in got_comments if c not in want_comments]
        cls = "comments"
        if any(c.startswith("id type") for c in extra):
            cls = "comments/column-header-added"
        elif len(got_comments) < len(want_comments):
            cls = "comments/lines-merged-or-lost"
        ctx.fail(f"roundtrip/{cls}", f"read {back.comments!r}, expected {want_comments!r} (leading blanks aside)")

    # read_swc gives the same table
    src2, _, rkw2 = _open(None, case["kind"], ctx, tree, kw, "b.swc", enc, case.get("preamble"))
    df, cm = read_swc(src2, **rkw2)
    ctx.check(df["pid"].tolist() == parents and len(df) == n, "read_swc/same-table", "read_swc differs")
    ctx.check(_strip(cm) == got_comments, "read_swc/same-comments", "comments differ between front ends")

    # second round trip: fixed point, exactly one more source header
    if n <= 300:
        text2 = back.to_swc(source="second", id_offset=case["id_offset"])
        back2 = Tree.from_swc(io.StringIO(text2))
        compare(back2, "second-roundtrip")
        want2 = ["source: second", ""] + got_comments
        ctx.check(_strip(back2.comments) == want2, "second-roundtrip/one-more-source-header",
                  lambda: f"read {back2.comments!r}, expected {want2!r}")


SUBCHECKS = [
    Sub("roundtrip", case_strategy, run_case, quick=1200, thorough=12000, shards_quick=4,
        required={"kind:str": 100, "kind:bytes": 100, "kind:path": 100, "regime:full-float32": 101,
                  "offset:0": 50, "offset:1000000": 50, "source:False": 50, "source:string": 100,
                  "single-node": 10, "blank-comment": 30, "non-ascii-comment": 20, "deep-or-large": 4,
                  "ids-beyond-2^24": 150, "type-code-beyond-a-byte": 100, "comments-appended-after-construction": 123,
                  "stored-as:utf-16": 20, "stored-as:utf-32": 20, "text-longer-than-1MiB": 4,
                  "written-before-then-edited-in-place": 150, "stream-positioned-after-a-preamble": 60,
                  "comment-equal-to-the-source-header-or-to-another-comment": 150, "read-after-a-failed-read": 150}),
]
