"""C14 — Tree volume is the volume of the union of node spheres and connecting frusta."""
import math

import numpy as np
from hypothesis import strategies as st

from vlib import gen_tree, models
from vlib.harness import Sub

PROPERTY = "C14"
RULE = (
    "(collinear) trees laid out on a straight line of random direction and offset: a chain of 2-8 nodes, or a root "
    "with two arms on opposite sides; radii log-uniform in [0.1, 5]; every spacing L = f * max(r_parent, r_child) "
    "with f drawn from {exactly 1, 1..1.5, 1..4}, so neighbouring spheres overlap (L < r_i + r_j) in about half of "
    "the compartments and are apart in the rest, and non-adjacent parts never overlap; accuracy levels 3..9 "
    "(one tree in seven has all neighbouring spheres tangent or apart); (two-arm trees at levels >= 5 run the library's 10^6-sample Monte-Carlo term whose true value is 0 - a few "
    "such cases per run, numpy RNG seeded from the case). Oracle: exact revolution integral of the union profile "
    "of all node spheres and frusta along the line (piecewise cubic antiderivative), rtol 1e-4; all levels agree; "
    "extract_feature(tree).get('volume') equals the default level. (levels12) arbitrary trees at level 1 = sum "
    "of 4/3 pi r^3 and level 2 = that + sum of frusta pi h (r1^2 + r1 r2 + r2^2) / 3, float64 reference, rtol 1e-5. "
    "Non-trivial: >= 3 nodes with at least one pair of overlapping neighbouring spheres of unequal radii."
)
ASSUMPTIONS = [
    "the library computes in float32: tolerance 1e-4 relative to the total volume (calibrated worst case 3e-7)",
    "the Monte-Carlo-only level 10 is outside the property",
]

RAD = st.floats(min_value=math.log(0.1), max_value=math.log(5.0), allow_nan=False).map(math.exp)


@st.composite
def arm(draw, k, r0, apart=False):
    xs, rs, prev = [], [], r0
    x = 0.0
    for _ in range(k):
        r = draw(RAD)
        if draw(st.integers(0, 5)) == 0:
            r = prev  # equal radii now and then
        elif draw(st.integers(0, 11)) == 0:
            r = 0.0  # a node of radius zero (SWC files have them): its sphere is empty, its frusta are cones
        m = max(prev, r, 0.1)
        mode = draw(st.integers(0, 3))
        f = 1.0 if mode == 0 else 1.0 + draw(st.floats(min_value=0.0, max_value=0.5)) if mode in (1, 2) else \
            1.0 + draw(st.floats(min_value=0.0, max_value=3.0))
        if apart:  # neighbouring spheres exactly tangent or clear of each other
            m = max(prev + r, 0.1)
            f = 1.0 if mode == 0 else 1.0 + draw(st.floats(min_value=0.0, max_value=1.0))
        x += m * f
        xs.append(x)
        rs.append(r)
        prev = r
    return xs, rs


@st.composite
def collinear_strategy(draw, tier):
    r0 = draw(RAD)
    two = draw(st.integers(0, 9)) < 3
    kmax = 7 if tier == "quick" else 20
    apart = draw(st.integers(0, 6)) == 0
    xa, ra = draw(arm(draw(st.integers(1, kmax)), r0, apart))
    pos, rad, par = [0.0] + xa, [r0] + ra, [-1] + list(range(len(xa)))
    if two:
        xb, rb = draw(arm(draw(st.integers(1, 4)), r0, apart))
        base = len(pos)
        pos += [-v for v in xb]
        rad += rb
        par += [0] + list(range(base, base + len(xb) - 1))
    axis = [draw(st.integers(-8, 8)) for _ in range(3)]
    if not any(axis):
        axis = [1, 0, 0]
    c = [draw(st.floats(min_value=-10, max_value=10, allow_nan=False, width=32)) for _ in range(3)]
    if two:
        lv = draw(st.sampled_from([3, 4, 4, 3, 5, 7]))
    else:
        lv = draw(st.integers(3, 9))
    # the unit of length is the user's: the same neuron in millimetres or in tenths of a micrometre
    unit = draw(st.sampled_from([1.0, 1.0, 1.0, 1.0, 0.001, 0.01, 100.0]))
    if unit != 1.0:
        c = [0.0, 0.0, 0.0]  # float32 storage: keep the relative precision of small coordinates
    far = draw(st.sampled_from([None, None, None, None, 40000.0, 65536.0, -49152.0]))
    if far is not None and unit == 1.0:
        # a neuron in stack / atlas coordinates, tens of thousands of units from the origin: laid along a coordinate axis at
        # positions that are multiples of 1/64 (rounded up, so every compartment stays at least as long as its radii), so
        # that float32 storage holds every coordinate exactly
        import math as _m

        k = draw(st.integers(0, 5))
        axis = [0, 0, 0]
        axis[k % 3] = 1 if k < 3 else -1
        c = [far * draw(st.sampled_from([1, 1, 0, -1])) for _ in range(3)]
        c[k % 3] = far
        # every *spacing* is rounded up to the grid (rounding the positions themselves could shorten a compartment)
        def _snap(arm):
            out, prev_o, prev_n = [], 0.0, 0.0
            for v in arm:
                prev_n += _m.ceil((v - prev_o) * 64) / 64
                prev_o = v
                out.append(prev_n)
            return out

        pos = [0.0] + _snap(xa) + ([-v for v in _snap(xb)] if two else [])
    else:
        far = None
    return {"session": draw(st.sampled_from([None, None, "same-source-measured-before", "failed-measurement-before", "both"])),
            "far": far, "pos": [p * unit for p in pos], "r": [r * unit for r in rad], "parents": par, "axis": axis, "c": c, "level": lv,
            "two": two, "feature": draw(st.integers(0, 5)) == 0 and not two, "unit": unit}


def _build(case, source=""):
    from swcgeom.core import Tree

    u = np.asarray(case["axis"], dtype=np.float64)
    u /= np.linalg.norm(u)
    c = np.asarray(case["c"], dtype=np.float64)
    xyz = np.array([c + u * p for p in case["pos"]]).astype(np.float32)
    n = len(case["pos"])
    t = Tree(n, id=np.arange(n, dtype=np.int32), pid=np.array(case["parents"], dtype=np.int32),
             type=np.array([1] + [3] * (n - 1), dtype=np.int32), x=xyz[:, 0], y=xyz[:, 1], z=xyz[:, 2],
             r=np.array(case["r"], dtype=np.float32), source=source)
    return t, xyz.astype(np.float64), u


def run_collinear(case, ctx):
    from swcgeom.analysis import get_volume

    session = case.get("session")
    src = "/data/cells/neuron-17.swc" if session in ("same-source-measured-before", "both") else ""
    tree, xyz, u = _build(case, src)
    n = len(xyz)
    if src:
        # another neuron with the same `source` and the same number of nodes (the file was rewritten, or the tree was
        # derived from it) has just been measured at every level
        other, _, _ = _build(dict(case, r=[v * 0.5 + 0.125 * case.get("unit", 1.0) for v in case["r"]]), src)
        for lvl in sorted({1, 2, 3, case["level"]}) + ["low"]:
            ctx.lib("get_volume[another tree of the same source]", get_volume, other, accuracy=lvl)
        ctx.cls("another-tree-of-the-same-source-measured-before")
    if session in ("failed-measurement-before", "both"):
        # a measurement that fails part-way (a node without coordinates), caught by the caller
        broken, _, _ = _build(case, src)
        broken.ndata["x"][1 if n > 2 else n - 1] = np.nan  # next to the root: the far nodes are summed before the failure
        for lvl in (case["level"], 3):
            try:
                get_volume(broken, accuracy=lvl)
            except Exception:  # noqa
                pass
        ctx.cls("measured-after-a-failed-measurement")
    # axis positions and radii exactly as the library sees them (float32 inputs)
    X = [float((xyz[i] - xyz[0]) @ u) for i in range(n)]
    R = [float(np.float32(r)) for r in case["r"]]
    prof = [models.rev_sphere(x, r) for x, r in zip(X, R)]
    overlap_unequal = False
    n_overlap = 0
    for i, p in enumerate(case["parents"]):
        if p < 0:
            continue
        prof.append(models.rev_frustum(X[p], R[p], X[i], R[i]))
        if abs(X[i] - X[p]) < (R[i] + R[p]) * (1 - 1e-6):
            n_overlap += 1
            if R[i] != R[p]:
                overlap_unequal = True
    want = models.revolution_volume(prof, "max")
    lv = case["level"]
    if any(r == 0 for r in R):
        ctx.cls("collinear:zero-radius-node")
    ctx.cls(f"unit:{case.get('unit', 1.0)}")
    if case.get("far") is not None:
        ctx.cls("far-from-the-origin")
    ctx.cls("two-arm" if case["two"] else "chain", f"level:{lv}", "overlapping-neighbours" if n_overlap else "all-apart",
            "mc-term" if case["two"] and lv >= 5 else "analytic-only")
    ctx.nontrivial(n >= 3 and overlap_unequal)
    info = lambda: f"pos={case['pos']} r={case['r']} parents={case['parents']} axis={case['axis']} c={case['c']}"  # noqa
    got = float(ctx.lib(f"get_volume[accuracy={lv}]", get_volume, tree, accuracy=lv))
    ctx.check(abs(got - want) <= 1e-4 * want, "collinear/volume-equals-union-of-spheres-and-frusta",
              lambda: f"accuracy={lv}: got {got!r}, true union volume {want!r}, relative error {abs(got - want) / want:.3g}; {info()}")
    if not case["two"]:
        for other in (3, 5, 8):
            g2 = float(ctx.lib(f"get_volume[accuracy={other}]", get_volume, tree, accuracy=other))
            ctx.check(abs(g2 - want) <= 1e-4 * want, "collinear/every-analytic-level-agrees",
                      lambda: f"accuracy={other}: got {g2!r}, true {want!r}; {info()}")
        for name, lvl in (("low", 3), ("middle", 5), ("high", 8)):
            if (lv + len(case["pos"])) % 3 == {"low": 0, "middle": 1, "high": 2}[name]:
                g3 = float(ctx.lib(f"get_volume[accuracy={name}]", get_volume, tree, accuracy=name))
                ctx.check(abs(g3 - want) <= 1e-4 * want, "collinear/named-levels", f"{name}: {g3} vs {want}")
    if case["feature"]:
        from swcgeom.analysis import extract_feature

        ctx.cls("via-extract_feature")
        g = ctx.lib("extract_feature/volume", lambda: extract_feature(tree).get("volume"))
        g = float(np.asarray(g).reshape(-1)[0])
        ctx.check(abs(g - want) <= 1e-4 * want, "collinear/extract_feature-volume",
                  lambda: f"got {g!r}, true {want!r}; {info()}")


@st.composite
def levels12_strategy(draw, tier):
    max_n = 25 if tier == "quick" else 150
    t = draw(gen_tree.tree_case(min_n=1, max_n=max_n, regimes=["lattice", "float", "coincident"], extras=False, mag=100.0))
    n = len(t["parents"])
    if draw(st.integers(0, 3)) == 0:
        # nodes of radius zero anywhere: tip, pass-through node, furcation, root
        for _ in range(draw(st.integers(1, 3))):
            t["r"][draw(st.integers(0, n - 1))] = 0.0
    return {"tree": t, "edit": [draw(st.integers(0, n - 1)), draw(st.integers(1, 64)) / 16.0, draw(st.integers(0, 2))]}


def run_levels12(case, ctx):
    from swcgeom.analysis import get_volume

    t = case["tree"]
    tree = gen_tree.build_tree(t, extras=False)
    R = np.array(t["r"], dtype=np.float32).astype(np.float64)
    seg = models.seg_lengths(t)
    v1 = float(np.sum(4.0 / 3.0 * math.pi * R ** 3))
    v2 = v1
    for i, p in enumerate(t["parents"]):
        if p >= 0:
            v2 += math.pi * seg[i] * (R[i] ** 2 + R[i] * R[p] + R[p] ** 2) / 3.0
    ctx.cls(*gen_tree.shape_classes(t))
    ch = models.children(t["parents"])
    if any(R[i] == 0 and ch[i] for i in range(len(R))):
        ctx.cls("zero-radius-node-with-children")
    ctx.nontrivial(len(R) >= 4 and any(len(c) >= 2 for c in models.children(t["parents"])))
    g1 = float(ctx.lib("get_volume[accuracy=1]", get_volume, tree, accuracy=1))
    g2 = float(ctx.lib("get_volume[accuracy=2]", get_volume, tree, accuracy=2))
    ctx.check(abs(g1 - v1) <= 1e-5 * v1 + 1e-12, "level1/sum-of-node-spheres", lambda: f"got {g1!r}, expected {v1!r}")
    ctx.check(abs(g2 - v2) <= 1e-5 * v2 + 1e-12, "level2/spheres-plus-frusta", lambda: f"got {g2!r}, expected {v2!r}")
    # the feature front end: one extractor asked for both levels, in either order, singly and in one list request
    if len(R) % 2 == 0:
        from swcgeom.analysis import extract_feature

        ctx.cls("one-extractor-asked-for-several-levels")
        fe = ctx.lib("extract_feature", extract_feature, tree)
        first, second = (1, 2) if len(R) % 4 == 0 else (2, 1)
        vals = {}
        for lv in (first, second, first):
            vals[lv] = float(np.asarray(ctx.lib(f"extract_feature.get[volume, accuracy={lv}]", fe.get, "volume", accuracy=lv)).reshape(-1)[0])
            want_lv = v1 if lv == 1 else v2
            ctx.check(abs(vals[lv] - want_lv) <= 1e-5 * want_lv + 1e-12, f"front-end/level{lv}-asked-after-another-level",
                      lambda: f"level {lv}: got {vals[lv]!r}, expected {want_lv!r} (request order {first}, {second}, {first})")
        pair = ctx.lib("extract_feature.get[list of pairs]", fe.get, [("volume", {"accuracy": first}), ("volume", {"accuracy": second})])
        for lv, g in zip((first, second), pair):
            g = float(np.asarray(g).reshape(-1)[0])
            want_lv = v1 if lv == 1 else v2
            ctx.check(abs(g - want_lv) <= 1e-5 * want_lv + 1e-12, "front-end/each-entry-of-a-list-request-uses-its-own-level",
                      lambda: f"level {lv}: got {g!r}, expected {want_lv!r}")
    # the volume is a function of the tree as it is now: after a radius has been edited (in place through a node
    # handle, on a copy, or by RadiusReseter) the same call reports the new sums
    if "edit" in case:
        i, newr, how = case["edit"]
        if how == 0:
            tree.node(i).r = newr
            tgt = tree
            R2 = R.copy()
            R2[i] = float(np.float32(newr))
            ctx.cls("volume-asked-again-after-an-in-place-edit")
        elif how == 1:
            tgt = tree.copy()
            tgt.node(i).r = newr
            R2 = R.copy()
            R2[i] = float(np.float32(newr))
            ctx.cls("volume-asked-again-on-an-edited-copy")
        else:
            from swcgeom.transforms import RadiusReseter

            tgt = RadiusReseter(newr)(tree)
            R2 = np.full_like(R, float(np.float32(newr)))
            ctx.cls("volume-asked-again-on-a-derived-tree")
        w1 = float(np.sum(4.0 / 3.0 * math.pi * R2 ** 3))
        w2 = w1
        for j, p in enumerate(t["parents"]):
            if p >= 0:
                w2 += math.pi * seg[j] * (R2[j] ** 2 + R2[j] * R2[p] + R2[p] ** 2) / 3.0
        h1 = float(ctx.lib("get_volume[accuracy=1]", get_volume, tgt, accuracy=1))
        h2 = float(ctx.lib("get_volume[accuracy=2]", get_volume, tgt, accuracy=2))
        ctx.check(abs(h1 - w1) <= 1e-5 * w1 + 1e-12, "level1/sum-of-node-spheres-after-an-edit", lambda: f"got {h1!r}, expected {w1!r}")
        ctx.check(abs(h2 - w2) <= 1e-5 * w2 + 1e-12, "level2/spheres-plus-frusta-after-an-edit", lambda: f"got {h2!r}, expected {w2!r}")


SUBCHECKS = [
    Sub("collinear", collinear_strategy, run_collinear, quick=700, thorough=8000, shards_quick=8,
        required={"chain": 200, "far-from-the-origin": 50, "another-tree-of-the-same-source-measured-before": 90,
                  "measured-after-a-failed-measurement": 104, "two-arm": 80, "overlapping-neighbours": 200, "all-apart": 20, "mc-term": 5,
                  "level:3": 30, "level:9": 10, "via-extract_feature": 20, "unit:0.001": 22, "unit:100.0": 29}),
    Sub("levels12", levels12_strategy, run_levels12, quick=800, thorough=10000, shards_quick=2,
        required={"furcations>=2": 100, "single-node": 2, "zero-radius-node-with-children": 40,
                  "volume-asked-again-after-an-in-place-edit": 100, "volume-asked-again-on-a-derived-tree": 100,
                  "one-extractor-asked-for-several-levels": 200}),
]
