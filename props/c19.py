"""C19 — Population containers index correctly and load each file at most once, on demand."""
import builtins
import os
import shutil
import tempfile

import numpy as np
from hypothesis import strategies as st

from vlib.harness import Enumerate, Machine, Sub

PROPERTY = "C19"
RULE = (
    "Stateful machine. Setup draws a directory layout: 1-3 roots, each with 0-8 .swc files taken from a shared pool "
    "of relative names (nested folders two levels deep, so roots share part of their names), other extensions as "
    "noise and empty folders; file k holds a chain of k+1 nodes, so a loaded tree identifies its file. Rules: "
    "Population.from_swc, len, p[i] for i in [-n-2, n+2), p[a:b:c], iteration, Populations.from_swc (intersect on / "
    "off), ps[i], iteration over rows, to_population(), ChainTrees over any members incl. empty ones, Population.map "
    "(module-level function), PopulationTransform. Oracle: a counting wrapper around builtins.open records reads per "
    "path; the model is the population's own listing of its files - checked against an independent os.walk: exactly the "
    "'.swc' files under the root, each once (files whose extension equals '.swc' only up to case may or may not be "
    "members) - plus, per loader, the set of requested files. Invariant after every step: reads(path) == number of loaders that were asked for that "
    "file (so: never before it is requested, never twice); a container's construction may read its first file only. "
    "p[i] is the tree of file i (source and node count), p[-k] == p[n-k], slices agree with range(), out of range "
    "raises IndexError; Populations rows hold same-relative-path files and its length is the intersection size (or "
    "the shortest member); chain length = sum of member lengths and chain[i] is the i-th tree of the concatenation; "
    "map returns one result per tree in order, also in progress-bar mode with the first tree by far the slowest. Non-trivial: >= 2 roots with >= 3 files, a nested and an empty folder, "
    "a repeated access, a negative index and a chain over >= 2 non-empty members."
)
ASSUMPTIONS = [
    "'i-th file' means the i-th entry of the population's own listing of its files (Population.find_swcs / trees.swcs), which must consist of exactly the '.swc' files under the root, each once; files whose extension equals '.swc' only up to case may or may not be members",
    "containers built over the same loader share its cache (to_population / ChainTrees chain the members' loaders)",
]

POOL = ["a.swc", "b.swc", "c.swc", "d.swc", "sub/a.swc", "sub/e.swc", "sub/deep/f.swc", "sub2/g.swc",
        # names that start with a dot (a hidden file beside its visible namesake, a hidden folder) or with other characters a
        # path clean-up might treat specially
        ".a.swc", ".hidden/h.swc", "..b.swc", "sub/.e.swc"]
NOISE = ["notes.txt", "sub/readme.md", "h.eswc", "sub2/x.swc.bak"]
EMPTY = ["empty1", "sub/empty2"]
# files whose extension differs from '.swc' only in case: whether they belong to a population is not fixed by the statement
# (the documented match is on the extension); they hold valid neurons of their own, and every clause is evaluated under
# either reading
CASEVAR = ["a.SWC", "sub/e.SWC", "c.Swc"]
os.environ.setdefault("TQDM_DISABLE", "1")  # Population.map(verbose=True) draws a progress bar


def _chain_len(tree):  # module level: Population.map pickles it
    return len(tree)


def _chain_len_slow(tree, slow_n=-1):
    """The tree with `slow_n` nodes takes much longer than the others (workers finish out of order)."""
    if len(tree) == slow_n:
        import time

        time.sleep(0.6)
    return len(tree)


def init_strategy(tier):
    root = st.fixed_dictionaries({
        "files": st.lists(st.sampled_from(POOL), unique=True, max_size=9),
        "noise": st.lists(st.sampled_from(NOISE), unique=True, max_size=2),
        "empty": st.lists(st.sampled_from(EMPTY), unique=True, max_size=2),
        "casevar": st.one_of(st.just([]), st.just([]), st.lists(st.sampled_from(CASEVAR), unique=True, max_size=2)),
    })
    return st.lists(root, min_size=1, max_size=3)


INT = lambda tier: st.integers(0, 10 ** 6)  # noqa
INT3 = lambda tier: st.lists(st.integers(-12, 12), min_size=3, max_size=3)  # noqa
SEL = lambda tier: st.lists(st.integers(0, 10 ** 6), min_size=2, max_size=4)  # noqa


class _Loader:
    """Model of one LazyLoadingTrees: files in order + which were requested."""

    def __init__(self, files):
        self.files = list(files)
        self.loaded = set()


class _Container:
    """Model of a Population / Trees: list of (loader, index)."""

    def __init__(self, real, slots, kind):
        self.real = real
        self.slots = slots
        self.kind = kind


class _State:
    def __init__(self, layout, tmpdir):
        self.base = tempfile.mkdtemp(prefix="pop-", dir=tmpdir)
        self.roots = []
        self.nodes_of = {}
        k = 0
        for r, spec in enumerate(layout):
            root = os.path.join(self.base, f"root{r}")
            os.makedirs(root)
            for rel in list(spec["files"]) + list(spec.get("casevar", [])):
                k += 1
                path = os.path.join(root, rel)
                os.makedirs(os.path.dirname(path), exist_ok=True)
                with open(path, "w") as f:
                    f.write("# generated\n")
                    for i in range(k):
                        f.write(f"{i + 1} {1 if i == 0 else 3} {i}.0 {r}.5 0.25 1.0 {i if i else -1}\n")
                self.nodes_of[os.path.abspath(path)] = k
            for rel in spec["noise"]:
                path = os.path.join(root, rel)
                os.makedirs(os.path.dirname(path), exist_ok=True)
                with open(path, "w") as f:
                    f.write("not a neuron\n")
            for rel in spec["empty"]:
                os.makedirs(os.path.join(root, rel), exist_ok=True)
            self.roots.append(root)
        self.layout = layout
        self.reads = {}
        self.loaders = []
        self.containers = []
        self.multi = []  # (real Populations, [container per population], intersect)
        self.orig_open = None
        self.flags = {"repeat": False, "negative": False, "chain2": False, "requests": set()}

    # -- instrumentation
    def __enter__(self):
        self.orig_open = builtins.open
        base = self.base + os.sep
        reads = self.reads
        orig = self.orig_open

        def counting_open(file, mode="r", *a, **kw):
            if isinstance(file, (str, bytes, os.PathLike)):
                p = os.path.abspath(os.fsdecode(file))
                if p.startswith(base) and "w" not in mode and "a" not in mode:
                    reads[p] = reads.get(p, 0) + 1
            return orig(file, mode, *a, **kw)

        builtins.open = counting_open
        return self

    def __exit__(self, *exc):
        builtins.open = self.orig_open
        return False

    def close(self):
        if self.orig_open is not None:
            builtins.open = self.orig_open
        shutil.rmtree(self.base, ignore_errors=True)

    # -- model helpers
    def listing(self, root, relpath=False, may=False):
        """Files that must belong to the population of `root` (extension '.swc'); with may=True also those whose
        membership the statement leaves open (extension equal up to case)."""
        out = []
        for r, _, files in os.walk(root):
            rr = os.path.relpath(r, root) if relpath else r
            out.extend(os.path.join(rr, f) for f in files
                       if os.path.splitext(f)[-1] == ".swc" or (may and os.path.splitext(f)[-1].lower() == ".swc"))
        return out

    def members(self, ctx, real, root, what):
        """The enumeration 'i-th file' refers to: the population's own listing of its files, which must consist of
        exactly the '.swc' files under the root (plus, possibly, case variants of the extension), each once."""
        from swcgeom.core import Population

        swcs = getattr(getattr(real, "trees", None), "swcs", None)
        if swcs is None:
            swcs = ctx.lib("Population.find_swcs", Population.find_swcs, root)
        paths = [os.path.abspath(x) for x in swcs]
        must = {os.path.abspath(x) for x in self.listing(root)}
        may = {os.path.abspath(x) for x in self.listing(root, may=True)}
        ctx.check(len(set(paths)) == len(paths) and must <= set(paths) <= may, f"{what}/members-are-the-swc-files-under-the-root",
                  lambda: f"listed {[os.path.relpath(x, root) for x in paths]}, '.swc' files {sorted(os.path.relpath(x, root) for x in must)}")
        if set(paths) != must:
            ctx.cls("case-variant-extension-taken-as-member")
        return paths

    def expected_reads(self):
        exp = {}
        for ld in self.loaders:
            for i in ld.loaded:
                p = os.path.abspath(ld.files[i])
                exp[p] = exp.get(p, 0) + 1
        return exp


def start(init, ctx):
    return _State(init, ctx.tmpdir)


def _sync_probe(s, ctx, slot_lists, what):
    """After constructing container(s): only the first file of each may have been read (once per loader)."""
    exp = s.expected_reads()
    extra = {p: c - exp.get(p, 0) for p, c in s.reads.items() if c != exp.get(p, 0)}
    if not extra:
        return
    allowed = {}
    for slots in slot_lists:
        if slots:
            ld, i = slots[0]
            if i not in ld.loaded:
                allowed.setdefault(os.path.abspath(ld.files[i]), []).append((ld, i))
    ok = all(p in allowed and 0 < v <= len(allowed[p]) for p, v in extra.items())
    ctx.check(ok, f"{what}/construction-reads-at-most-the-first-file",
              lambda: f"files read while constructing: { {os.path.relpath(p, s.base): v for p, v in extra.items()} }")
    for p, v in extra.items():
        for ld, i in allowed[p][:v]:
            ld.loaded.add(i)


def _check_tree(s, ctx, tree, slot, clause):
    ld, i = slot
    path = os.path.abspath(ld.files[i])
    ctx.check(len(tree) == s.nodes_of[path], clause,
              lambda: f"got a tree of {len(tree)} nodes (source {tree.source!r}), expected file {os.path.relpath(path, s.base)} with {s.nodes_of[path]} nodes")
    ctx.check(os.path.abspath(tree.source) == path, clause + "/source", lambda: f"{tree.source!r} vs {path!r}")


def _request(s, slot):
    ld, i = slot
    key = (id(ld), i)
    if key in s.flags["requests"]:
        s.flags["repeat"] = True
    s.flags["requests"].add(key)
    ld.loaded.add(i)


def apply(s, name, args, ctx):
    from swcgeom.core import Population, Populations
    from swcgeom.core.population import ChainTrees

    with s:
        if name == "population":
            root = s.roots[args % len(s.roots)]
            if (args // 7) % 3 == 0:
                root = root + os.sep  # the directory written with a trailing separator
                ctx.cls("root-written-with-a-trailing-separator")
            real = ctx.lib("Population.from_swc", Population.from_swc, root)
            files = s.members(ctx, real, root, "population")
            ld = _Loader(files)
            s.loaders.append(ld)
            c = _Container(real, [(ld, i) for i in range(len(files))], "population")
            s.containers.append(c)
            ctx.check(len(real) == len(files), "population/len", f"{len(real)} vs {len(files)} files under {root}")
            _sync_probe(s, ctx, [c.slots], "population")
        elif name == "populations":
            intersect = bool(args[0] % 2)
            k = 1 + args[1] % len(s.roots)
            roots = s.roots[:k] if args[0] % 4 < 2 else list(reversed(s.roots))[:k]
            if (args[0] // 4) % 3 == 0:
                # directories written with a trailing separator (all of them, or only the first)
                roots = [r + os.sep if (j == 0 or args[0] % 8 < 4) else r for j, r in enumerate(roots)]
                ctx.cls("root-written-with-a-trailing-separator")
            rels = [s.listing(r, relpath=True) for r in roots]
            rels_may = [s.listing(r, relpath=True, may=True) for r in roots]
            real = ctx.lib("Populations.from_swc", Populations.from_swc, roots, intersect=intersect)
            inter, inter_may = set(rels[0]), set(rels_may[0])
            for r, rm in zip(rels[1:], rels_may[1:]):
                inter &= set(r)
                inter_may &= set(rm)
            inter = {os.path.normpath(x) for x in inter}
            inter_may = {os.path.normpath(x) for x in inter_may}
            if any(set(a) != set(b) for a, b in zip(rels, rels_may)):
                ctx.cls("populations-over-roots-with-case-variant-extensions")
            lo = len(inter) if intersect else min(len(r) for r in rels)
            hi = len(inter_may) if intersect else min(len(r) for r in rels_may)
            ctx.check(lo <= len(real) <= hi, "populations/len", f"{len(real)} vs {lo}..{hi} (intersect={intersect})")
            ctx.check(real.num_of_populations() == len(roots), "populations/one-population-per-root", "")
            conts = []
            for d, p in zip(roots, real.populations):
                # the library's own order of the intersection is unspecified: read it back from the loader's path list
                paths = [os.path.abspath(x) for x in p.trees.swcs]
                if intersect:
                    got = {os.path.relpath(x, d) for x in paths}
                    ctx.check(len(got) == len(paths) and inter <= got <= inter_may and len(paths) == len(real),
                              "populations/members-are-the-intersection", lambda: f"{paths} vs {sorted(inter)} under {d}")
                else:
                    own = s.members(ctx, p, d, "populations")
                    ctx.check(paths == own, "populations/members-are-the-listing", "")
                ld = _Loader(paths)
                s.loaders.append(ld)
                c = _Container(p, [(ld, i) for i in range(len(paths))], "population")
                s.containers.append(c)
                conts.append(c)
            _sync_probe(s, ctx, [c.slots for c in conts], "populations")
            s.multi.append((real, conts, intersect, roots))
        elif name == "ps_get":
            if not s.multi:
                return
            real, conts, intersect, roots = s.multi[args[0] % len(s.multi)]
            n = len(real)
            if n == 0:
                return
            i = args[1] % n
            row = ctx.lib("populations[i]", lambda: real[i])
            ctx.check(len(row) == len(conts), "populations/row-width", f"{len(row)}")
            rel = None
            for t, c, d in zip(row, conts, roots):
                _request(s, c.slots[i])
                _check_tree(s, ctx, t, c.slots[i], "populations/row-member-is-file-i-of-its-population")
                r = os.path.relpath(os.path.abspath(t.source), d)
                if intersect:
                    ctx.check(rel is None or r == rel, "populations/row-holds-same-named-files", lambda: f"{r} vs {rel}")
                rel = r
        elif name == "ps_iter":
            if not s.multi:
                return
            real, conts, intersect, roots = s.multi[args % len(s.multi)]
            rows = ctx.lib("iter(populations)", lambda: list(real))
            ctx.check(len(rows) == len(real), "populations/iteration-length", f"{len(rows)} vs {len(real)}")
            for i, row in enumerate(rows):
                for t, c in zip(row, conts):
                    _request(s, c.slots[i])
                    _check_tree(s, ctx, t, c.slots[i], "populations/iteration-order")
        elif name == "to_population":
            if not s.multi:
                return
            real, conts, intersect, roots = s.multi[args % len(s.multi)]
            chain = ctx.lib("to_population", real.to_population)
            slots = [sl for c in conts for sl in c.slots]
            c = _Container(chain, slots, "chain")
            if sum(1 for cc in conts if cc.slots) >= 2:
                s.flags["chain2"] = True
            ctx.check(len(chain) == len(slots), "chain/length-is-the-sum-of-members",
                      lambda: f"to_population(): length {len(chain)}, members have {[len(cc.slots) for cc in conts]}")
            s.containers.append(c)
            _sync_probe(s, ctx, [slots], "chain")
        elif name == "chain":
            if not s.containers:
                return
            members = [s.containers[a % len(s.containers)] for a in args]
            as_pop = args[0] % 2 == 0
            form = args[1] % 3
            parts = [m.real.trees if isinstance(m.real, Population) else m.real for m in members]
            if form == 1:
                parts = tuple(parts)
            elif form == 2:
                parts = (p for p in parts)  # any iterable
            ct = ctx.lib("ChainTrees", ChainTrees, parts)
            slots = [sl for m in members for sl in m.slots]
            if sum(1 for m in members if m.slots) >= 2:
                s.flags["chain2"] = True
            ctx.check(len(ct) == len(slots), "chain/length-is-the-sum-of-members",
                      lambda: f"length {len(ct)}, members have {[len(m.slots) for m in members]}")
            real = ctx.lib("Population(ChainTrees)", Population, ct) if as_pop else ct
            c = _Container(real, slots, "chain")
            s.containers.append(c)
            if as_pop:
                _sync_probe(s, ctx, [slots], "chain")
        elif name == "get":
            if not s.containers:
                return
            c = s.containers[args[0] % len(s.containers)]
            n = len(c.slots)
            i = args[1] % (2 * n + 4) - (n + 2)
            if -n <= i < n:
                t = ctx.lib(f"{c.kind}[i]", lambda: c.real[i])
                j = i % n
                if i < 0:
                    s.flags["negative"] = True
                _request(s, c.slots[j])
                _check_tree(s, ctx, t, c.slots[j], f"{c.kind}/index-returns-the-tree-of-file-i")
                if args[1] % 2:
                    # the caller looks at the tree it was handed (read-only): nothing of that concerns the container
                    ctx.lib("tree/inspect", lambda: (t.node(0).children(), t.get_tips(), t.get_branches(), t.length(),
                                                    t.soma(type_check=False).children()))
                    s.flags["inspected"] = True
            else:
                try:
                    t = c.real[i]
                except IndexError:
                    pass
                else:
                    ctx.fail(f"{c.kind}/out-of-range-index-accepted", f"index {i} of {n} returned a tree of {len(t)} nodes")
        elif name == "slice":
            if not s.containers:
                return
            c = s.containers[args[0] % len(s.containers)]
            if not hasattr(c.real, "root"):  # bare ChainTrees has no slicing
                return
            a, b, step = args[1], args[2], args[3] or 1
            a = None if a == 12 else a
            b = None if b == -12 else b
            sub = ctx.lib(f"{c.kind}[a:b:c]", lambda: c.real[a:b:step])
            idx = list(range(len(c.slots)))[a:b:step]
            ctx.check(len(sub) == len(idx), f"{c.kind}/slice-length", lambda: f"[{a}:{b}:{step}] has {len(sub)}, expected {len(idx)}")
            for k in range(len(idx)):
                t = ctx.lib("slice[k]", lambda: sub[k])
                _request(s, c.slots[idx[k]])
                _check_tree(s, ctx, t, c.slots[idx[k]], f"{c.kind}/slice-agrees-with-indices")
            s.containers.append(_Container(sub, [c.slots[k] for k in idx], "list"))
            if idx and idx != list(range(len(idx))):
                s.flags["non_prefix_slice"] = True
            if len(idx) >= 2 and idx == list(range(len(c.slots)))[::-1]:
                s.flags["whole_population_reversed"] = True
            if args[0] % 2 and len(idx) > 0:
                # a population made of the slice: iteration, map and further slicing go through the slice's own indices
                from swcgeom.core import Population

                wrapped = ctx.lib("Population(slice)", lambda: Population(sub, root="slice"))
                s.containers.append(_Container(wrapped, [c.slots[k] for k in idx], "population-of-slice"))
        elif name == "iterate":
            if not s.containers:
                return
            c = s.containers[args % len(s.containers)]
            by_index = c.kind == "list" and args % 2 == 0
            trees = ctx.lib(f"iter({c.kind})", lambda: [c.real[k] for k in range(len(c.real))] if by_index else list(c.real))
            if c.kind in ("list", "population-of-slice") and not by_index and c.slots and \
                    [sl[1] for sl in c.slots] != list(range(len(c.slots))):
                s.flags["iterated_non_prefix_slice"] = True
            ctx.check(len(trees) == len(c.slots), f"{c.kind}/iteration-length", f"{len(trees)} vs {len(c.slots)}")
            for t, sl in zip(trees, c.slots):
                _request(s, sl)
                _check_tree(s, ctx, t, sl, f"{c.kind}/iteration-order")
        elif name == "map":
            pops = [c for c in s.containers if hasattr(c.real, "map") and 0 < len(c.slots) <= 6]
            sliced = [c for c in pops if c.kind == "population-of-slice"]
            if s.flags.get("maps", 0) >= 1:
                # a second map per history only for a population made of a slice (it forks a process pool)
                if not sliced or s.flags.get("maps_sliced"):
                    return
                pops = sliced
            if not pops:
                return
            s.flags["maps"] = s.flags.get("maps", 0) + 1
            c = pops[args % len(pops)] if not sliced else sliced[args % len(sliced)]
            if c.kind == "population-of-slice":
                s.flags["maps_sliced"] = True
            want = [s.nodes_of[os.path.abspath(ld.files[i])] for ld, i in c.slots]
            if args % 3 == 0 and len(want) >= 2:
                # progress-bar mode, the first tree by far the slowest: results still come back in tree order
                import functools

                s.flags["map_verbose"] = True
                fn = functools.partial(_chain_len_slow, slow_n=want[0])
                import contextlib
                import io

                with contextlib.redirect_stderr(io.StringIO()):  # the progress bar
                    res = ctx.lib("Population.map[verbose]", lambda: list(c.real.map(fn, max_worker=2, verbose=True)))
            else:
                res = ctx.lib("Population.map", lambda: list(c.real.map(_chain_len, max_worker=2)))
            for sl in c.slots:
                _request(s, sl)
            ctx.check(res == want, "map/one-result-per-tree-in-order", lambda: f"{res} vs {want}")
        elif name == "transform":
            from swcgeom.transforms import PopulationTransform, Translate

            pops = [c for c in s.containers if hasattr(c.real, "root") and len(c.slots) > 0]
            if not pops:
                return
            c = pops[args % len(pops)]
            out = ctx.lib("PopulationTransform", lambda: PopulationTransform(Translate(1.0, 0.0, 0.0))(c.real))
            for sl in c.slots:
                _request(s, sl)
            ctx.check(len(out) == len(c.slots), "transform/length", f"{len(out)} vs {len(c.slots)}")
            for k, sl in enumerate(c.slots):
                t = out[k]
                _check_tree(s, ctx, t, sl, "transform/one-tree-per-member-in-order")
                ctx.check(float(t.x()[0]) == 1.0, "transform/applied", f"root x = {t.x()[0]}")


def invariant(s, ctx):
    exp = s.expected_reads()
    bad = {os.path.relpath(p, s.base): (s.reads.get(p, 0), exp.get(p, 0)) for p in set(exp) | set(s.reads)
           if s.reads.get(p, 0) != exp.get(p, 0)}
    if bad:
        first = sorted(bad.items())[0]
        more = [k for k, (a, b) in bad.items() if a > b]
        clause = "reads/file-read-more-than-once-or-before-it-was-requested" if more else "reads/requested-tree-was-not-read-from-its-file"
        ctx.fail(clause, f"reads vs requests per file (actual, expected): {dict(sorted(bad.items()))}")


def finish(s, ctx):
    if s.flags.get("inspected") and s.flags.get("maps"):
        ctx.cls("map-after-fetched-trees-were-inspected")
    nfiles = [len(sp["files"]) for sp in s.layout]
    nested = any("/" in f for sp in s.layout for f in sp["files"])
    empty = any(sp["empty"] for sp in s.layout)
    ctx.cls(f"roots:{len(s.layout)}", "nested" if nested else "flat", "has-empty-folder" if empty else "no-empty-folder")
    if any(n == 0 for n in nfiles):
        ctx.cls("root-without-files")
    if s.flags["repeat"]:
        ctx.cls("repeated-access")
    if s.flags["negative"]:
        ctx.cls("negative-index")
    if s.flags["chain2"]:
        ctx.cls("chain-over>=2-members")
    if s.multi:
        ctx.cls("populations")
    if s.flags.get("maps"):
        ctx.cls("map")
    if s.flags.get("maps_sliced"):
        ctx.cls("map-over-a-population-made-of-a-slice")
    if s.flags.get("whole_population_reversed"):
        ctx.cls("whole-container-reversed-by-a-slice")
    if s.flags.get("map_verbose"):
        ctx.cls("map-with-progress-bar-and-uneven-work")
    if any(sp.get("casevar") for sp in s.layout):
        ctx.cls("layout-with-case-variant-extensions")
    if any(os.path.basename(f).startswith(".") or f.startswith(".") for sp in s.layout for f in sp["files"]):
        ctx.cls("layout-with-names-starting-with-a-dot")
    if s.flags.get("iterated_non_prefix_slice"):
        ctx.cls("iterated-a-non-prefix-slice")
    ctx.nontrivial(sum(1 for n in nfiles if n >= 3) >= 2 and nested and empty and s.flags["repeat"]
                   and s.flags["negative"] and s.flags["chain2"])


# ----------------------------------------------------------------------------- hundreds of files
@st.composite
def many_strategy(draw, tier):
    return {"n": draw(st.sampled_from([257, 300, 300, 520])), "nested": draw(st.booleans()),
            "sel": draw(st.lists(st.integers(0, 10 ** 6), min_size=6, max_size=6))}


def many_cases(tier):
    import os
    import random

    rnd = random.Random(int(os.environ.get("VERIF_SEED", "1") or 1) * 7919 + 19)
    for n in ([257, 300, 520] if tier == "quick" else [257, 258, 300, 511, 512, 513, 520, 1030]):
        for nested in (False, True):
            yield {"n": n, "nested": nested, "sel": [rnd.randrange(10 ** 6) for _ in range(6)]}


def run_many(case, ctx):
    from swcgeom.core import Population

    n = case["n"]
    base = tempfile.mkdtemp(prefix="many-", dir=ctx.tmpdir)
    for i in range(n):
        d = os.path.join(base, f"g{i % 7}") if case["nested"] else base
        os.makedirs(d, exist_ok=True)
        with open(os.path.join(d, f"n{i:04d}.swc"), "w") as f:
            f.write(f"1 1 {i}.0 0 0 1 -1\n2 3 {i}.0 1 0 1 1\n")
    ctx.cls(f"files:{n}", "nested" if case["nested"] else "flat")
    ctx.nontrivial(True)
    reads = {}
    orig = builtins.open

    def counting_open(file, mode="r", *a, **kw):
        if isinstance(file, (str, bytes, os.PathLike)):
            q = os.path.abspath(os.fsdecode(file))
            if q.startswith(base + os.sep) and "w" not in mode and "a" not in mode:
                reads[q] = reads.get(q, 0) + 1
        return orig(file, mode, *a, **kw)

    builtins.open = counting_open
    try:
        pop = ctx.lib("Population.from_swc", Population.from_swc, base)
        listing = [os.path.abspath(x) for x in pop.trees.swcs]
        ctx.check(len(pop) == n and len(set(listing)) == n, "many/len", f"{len(pop)} for {n} files")
        asked = set()

        def member(container, k, want_pos, clause):
            t = ctx.lib(clause, lambda: container[k])
            want = listing[want_pos]
            asked.add(want)
            ctx.check(os.path.abspath(t.source) == want and float(t.x()[0]) == float(int(os.path.basename(want)[1:5])), clause,
                      lambda: f"position {want_pos} of {n}: got {t.source!r} (x={t.x()[0]}), expected {want!r}")

        for i in sorted({0, 255 % n, 256 % n, 257 % n, n - 1} | {v % n for v in case["sel"][:2]}):
            member(pop, i, i, "many/index-returns-the-tree-of-file-i")
        for i in (-1, -2, -(n - 256)):
            member(pop, i, n + i, "many/negative-index")
        sl = [slice(n - 10, n - 5), slice(-5, None), slice(256, n, 11), slice(1, n, 2), slice(None, None, -1),
              slice(case["sel"][2] % n, None, 1 + case["sel"][3] % 5)]
        for sc in sl:
            idx = list(range(n))[sc]
            sub = ctx.lib("many/slice", lambda: pop[sc])
            ctx.check(len(sub) == len(idx), "many/slice-length", f"{sc}: {len(sub)} vs {len(idx)}")
            for k in sorted({0, len(idx) - 1, len(idx) // 2, case["sel"][4] % max(1, len(idx))}):
                if idx:
                    member(sub, k, idx[k], "many/slice-agrees-with-indices")
            if idx and sc.step in (11, 2):
                wrapped = Population(sub, root="slice")
                asked.update(listing[k] for k in idx)  # iterating the whole slice asks for every member of it
                ts = list(wrapped)[:3]
                for k, t in enumerate(ts):
                    asked.add(listing[idx[k]])
                    ctx.check(os.path.abspath(t.source) == listing[idx[k]], "many/iteration-over-a-slice",
                              lambda: f"{sc} member {k}: {t.source!r} vs {listing[idx[k]]!r}")
        extra = {os.path.relpath(q, base): c for q, c in reads.items() if c > 1 or (q not in asked and q != listing[0])}
        ctx.check(not extra, "many/each-file-read-at-most-once-and-only-on-request", lambda: f"{dict(list(extra.items())[:5])}")
    finally:
        builtins.open = orig
        shutil.rmtree(base, ignore_errors=True)


SUBCHECKS = [
    Enumerate("many_files", many_cases, run_many, shards_quick=6, shards_thorough=16, required={"files:300": 2, "files:257": 2}, exhaustive=False),
    Machine("containers", init_strategy,
            {"population": INT, "populations": SEL, "ps_get": SEL, "ps_iter": INT, "to_population": INT, "chain": SEL,
             "get": SEL, "slice": lambda tier: st.one_of(
                 st.lists(st.integers(-12, 12), min_size=4, max_size=4).map(lambda v: [abs(v[0])] + v[1:]),
                 # the everyday whole-range forms: [::-1], [:], [-1::-1], [::2], [::-2], [1:], [:-1]  (12 / -12 stand for "omitted")
                 st.tuples(st.integers(0, 12), st.sampled_from([[12, -12, -1], [12, -12, 1], [-1, -12, -1], [12, -12, 2], [12, -12, -2],
                                                                 [1, -12, 1], [12, -1, 1]])).map(lambda v: [v[0]] + v[1])),
             "iterate": INT, "map": INT, "transform": INT},
            start, apply, invariant, finish, quick=1200, thorough=4000, steps_quick=40, steps_thorough=70,
            shards_quick=8, required={"repeated-access": 40, "negative-index": 40, "chain-over>=2-members": 30,
                                      "populations": 40, "nested": 60, "has-empty-folder": 40, "roots:3": 20, "map": 10,
                                      "root-without-files": 5, "iterated-a-non-prefix-slice": 5,
                                      "map-over-a-population-made-of-a-slice": 2, "map-with-progress-bar-and-uneven-work": 3,
                                      "layout-with-case-variant-extensions": 60, "whole-container-reversed-by-a-slice": 40,
                                      "populations-over-roots-with-case-variant-extensions": 10,
                                      "root-written-with-a-trailing-separator": 200, "layout-with-names-starting-with-a-dot": 300, "map-after-fetched-trees-were-inspected": 3}),
]
