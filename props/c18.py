"""C18 — Topology diagnosis and root repair tell the truth about any parent table."""
import io
import itertools
import warnings

import numpy as np
from hypothesis import strategies as st

from vlib import models
from vlib.harness import Enumerate, Machine, Sub

PROPERTY = "C18"
RULE = (
    "(dsu) stateful machine over DisjointSetUnion(n), n in 1..40: union / find / same with generated "
    "arguments, compared after every step with a naive relabelling partition (all pairs). "
    "(tables) parent tables = arbitrary functions nodes -> {-1} + nodes (self loops, cycles, forests) on "
    "<= 12 nodes from Hypothesis, optionally with shuffled row order, and ALL tables on <= 5 nodes "
    "(quick) / <= 6 nodes (thorough: 2+9+64+625+7776+117649 tables) exhaustively; oracle from parent "
    "pointers: connected (undirected), has a directed cycle, every non-root's parent row precedes it, no "
    "node / no non-root node has more than two children; every checker call runs under a 20 s watchdog. "
    "(forest) multi-root forest files with id base 0 / 1 / k, roots in any rows, read with fix_roots off "
    "/ 'somas' / 'nearest', and the DataFrame functions mark_roots_as_somas, link_roots_to_nearest, "
    "reset_index. Non-trivial: dsu history with >= 3 effective unions and a query across a merged class; "
    "table with >= 4 nodes that is a forest of >= 2 trees or contains a cycle of length >= 2; forest file "
    "with id base != 0 and >= 2 components of >= 2 nodes."
)
ASSUMPTIONS = [
    "has_cyclic / DisjointSetUnion address elements by id, so tables for them use ids 0..n-1 (in any row order)",
    "is_sorted is asserted on tables whose ids are their row positions (there 'precedes' is unambiguous)",
    "forests are re-based (reset_index=True) only when their first row is a root; otherwise read with reset_index=False "
    "(re-basing on a later root makes ids negative and the marker -1 ambiguous; the library warns about that layout)",
    "'somas' repair may retype the re-linked roots as soma (its documented update_type); every other attribute is exact",
]


# ----------------------------------------------------------------------------- DSU machine
def dsu_init(tier):
    return st.integers(1, 40 if tier == "quick" else 120)


_ARG2 = lambda tier: st.tuples(st.integers(0, 10 ** 6), st.integers(0, 10 ** 6)).map(list)  # noqa
_ARG1 = lambda tier: st.integers(0, 10 ** 6)  # noqa


class _DsuState:
    def __init__(self, n):
        from swcgeom.utils import DisjointSetUnion

        self.n = n
        self.real = DisjointSetUnion(n)
        self.model = models.Partition(n)
        self.effective = 0
        self.cross_query = False
        self.ops = 0


def dsu_start(init, ctx):
    return _DsuState(int(init))


def dsu_apply(s, name, args, ctx):
    s.ops += 1
    if name == "union":
        a, b = args[0] % s.n, args[1] % s.n
        if not s.model.same(a, b):
            s.effective += 1
        ctx.lib("dsu/union", s.real.union_sets, a, b)
        s.model.union(a, b)
    elif name == "find":
        a = args % s.n
        r = ctx.lib("dsu/find", s.real.find_parent, a)
        ctx.check(isinstance(r, (int, np.integer)) and 0 <= r < s.n and s.model.same(a, int(r)),
                  "dsu/find-returns-a-member-of-the-class", lambda: f"find({a}) = {r}")
        r2 = s.real.find_parent(int(r))
        ctx.check(r2 == r, "dsu/representative-is-a-fixed-point", lambda: f"find({r}) = {r2}")
    elif name == "same":
        a, b = args[0] % s.n, args[1] % s.n
        got = ctx.lib("dsu/same", s.real.is_same_set, a, b)
        want = s.model.same(a, b)
        if want and a != b and s.effective >= 2:
            s.cross_query = True
        ctx.check(bool(got) == want, "dsu/joined-iff-connected-by-unions",
                  lambda: f"is_same_set({a},{b}) = {got}, model {want}")
    elif name == "bad_union":
        # out-of-range elements are refused loudly, never silently merged
        a = args[0] % s.n
        b = s.n + args[1] % 5
        try:
            s.real.union_sets(a, b)
        except (AssertionError, IndexError, ValueError):
            pass
        else:
            ctx.fail("dsu/out-of-range-element-accepted", f"union_sets({a},{b}) with n={s.n} returned")


def dsu_invariant(s, ctx):
    # all pairs against the model (n <= 40 quick); representatives consistent
    n = s.n
    if n > 40 and s.ops % 5:
        return
    reps = [s.real.find_parent(i) for i in range(n)]
    for i in range(n):
        for j in range(i + 1, n):
            if (reps[i] == reps[j]) != s.model.same(i, j):
                ctx.fail("dsu/partition-differs-from-model",
                         f"elements {i},{j}: reps {reps[i]},{reps[j]}, model same={s.model.same(i, j)}")


def dsu_finish(s, ctx):
    ctx.cls("dsu:effective>=3" if s.effective >= 3 else "dsu:effective<3")
    if s.cross_query:
        ctx.cls("dsu:cross-class-query")
    ctx.nontrivial(s.effective >= 3 and s.cross_query)


# ----------------------------------------------------------------------------- parent tables
def ref_table(p):
    """p[i] = parent position or -1.  Returns (connected, cyclic, sorted, bif_all, bif_nonroot, blocks)."""
    n = len(p)
    part = models.Partition(n)
    for i, q in enumerate(p):
        if q >= 0:
            part.union(i, q)
    connected = len(set(part.label)) == 1
    cyclic = False
    for i in range(n):
        j, k = i, 0
        while p[j] >= 0 and k <= n:
            j = p[j]
            k += 1
        if k > n:
            cyclic = True
    srt = all(q < i for i, q in enumerate(p) if q >= 0)
    cnt = [0] * n
    for q in p:
        if q >= 0:
            cnt[q] += 1
    bif_all = all(c <= 2 for c in cnt)
    bif_nonroot = all(c <= 2 for i, c in enumerate(cnt) if p[i] != -1)
    return connected, cyclic, srt, bif_all, bif_nonroot, part.label


def _table_classes(p):
    n = len(p)
    conn, cyc, srt, ba, bn, _ = ref_table(p)
    nroots = sum(1 for q in p if q == -1)
    out = [f"n:{min(n, 7)}" if n < 7 else "n:7+"]
    out.append("cyclic" if cyc else "acyclic")
    if cyc and any(q == i for i, q in enumerate(p)):
        out.append("self-loop")
    if cyc:
        # a cycle of length >= 2
        for i in range(n):
            j, seen = i, []
            while p[j] >= 0 and j not in seen:
                seen.append(j)
                j = p[j]
            if j in seen and len(seen) - seen.index(j) >= 2:
                out.append("cycle>=2")
                break
    if not cyc:
        out.append("tree" if nroots == 1 else "forest")
    out.append("connected" if conn else "disconnected")
    out.append("sorted" if srt else "unsorted")
    out.append("bif" if ba else ("bif-except-root" if bn else "not-bif"))
    return out


def run_table(case, ctx):
    import pandas as pd

    from swcgeom.core.swc_utils import (get_dsu, has_cyclic, is_bifurcate, is_single_root,
                                        is_sorted)

    p = case["p"]
    n = len(p)
    rows = case.get("rows") or list(range(n))  # rows[k] = node shown in row k
    want_conn, want_cyc, want_sorted, want_ba, want_bn, blocks = ref_table(p)
    cl = _table_classes(p)
    shuffled = rows != list(range(n))
    ctx.cls(*cl, "rows-shuffled" if shuffled else "rows-in-id-order")
    ctx.nontrivial(n >= 4 and ("forest" in cl or "cycle>=2" in cl))
    ids = np.array(rows, dtype=np.int64)
    pids = np.array([p[i] for i in rows], dtype=np.int64)
    topo = (ids, pids)
    df = pd.DataFrame({"id": ids, "pid": pids})

    got = ctx.timed("is_single_root", limit=3.0, fn=lambda: ctx.lib("is_single_root", is_single_root, df))
    ctx.check(bool(got) == want_conn, "is_single_root/all-nodes-connected",
              lambda: f"table {p} rows {rows}: got {got}, expected {want_conn}")
    lab = ctx.timed("get_dsu", limit=3.0, fn=lambda: ctx.lib("get_dsu", get_dsu, df))
    if not want_cyc:
        same_got = {(a, b) for a in range(n) for b in range(n) if lab[a] == lab[b]}
        same_want = {(a, b) for a in range(n) for b in range(n) if blocks[rows[a]] == blocks[rows[b]]}
        ctx.check(same_got == same_want, "get_dsu/labels-are-the-components",
                  lambda: f"table {p} rows {rows}: labels {list(lab)}")
    got = ctx.timed("has_cyclic", limit=3.0, fn=lambda: ctx.lib("has_cyclic", has_cyclic, topo))
    ctx.check(bool(got) == want_cyc, "has_cyclic/some-node-reaches-itself",
              lambda: f"table {p} rows {rows}: got {got}, expected {want_cyc}")
    got = ctx.timed("is_bifurcate", limit=3.0, fn=lambda: ctx.lib("is_bifurcate", is_bifurcate, topo, exclude_root=False))
    ctx.check(bool(got) == want_ba, "is_bifurcate/no-node-has-more-than-two-children",
              lambda: f"table {p} rows {rows}: got {got}, expected {want_ba}")
    got = ctx.timed("is_bifurcate", limit=3.0, fn=lambda: ctx.lib("is_bifurcate", is_bifurcate, topo, exclude_root=True))
    ctx.check(bool(got) == want_bn, "is_bifurcate/exclude_root",
              lambda: f"table {p} rows {rows}: got {got}, expected {want_bn}")
    got_default = ctx.lib("is_bifurcate", is_bifurcate, topo)
    ctx.check(bool(got_default) == want_bn, "is_bifurcate/default-excludes-root", f"table {p}")
    if not shuffled:
        got = ctx.timed("is_sorted", limit=3.0, fn=lambda: ctx.lib("is_sorted", is_sorted, topo))
        ctx.check(bool(got) == want_sorted, "is_sorted/parents-precede-children",
                  lambda: f"table {p}: got {got}, expected {want_sorted}")


@st.composite
def table_strategy(draw, tier):
    n = draw(st.integers(1, 12 if tier == "quick" else 40))
    mode = draw(st.sampled_from(["any", "any", "forest", "tree", "onecycle"]))
    if mode == "any":
        p = [draw(st.integers(-1, n - 1)) for _ in range(n)]
    else:
        # acyclic by construction over a random labelling, then optionally one back edge
        lab = list(draw(st.permutations(list(range(n)))))
        by = sorted(range(n), key=lambda i: lab[i])
        p = [-1] * n
        for k, i in enumerate(by):
            if k == 0:
                continue
            if mode == "forest" and draw(st.integers(0, 3)) == 0:
                continue
            p[i] = by[draw(st.integers(0, k - 1))]
        if mode == "onecycle":
            i = by[0]
            p[i] = draw(st.integers(0, n - 1))
    case = {"p": p}
    if draw(st.booleans()) and n > 1:
        case["rows"] = list(draw(st.permutations(list(range(n)))))
    return case


# ----------------------------------------------------------------------------- long rings, chains and ladders
LARGE_N = [62, 63, 64, 100, 120, 127, 128, 255, 256, 257, 384, 1000, 2500]
LARGE_SHAPES = ["ring-forward", "ring-backward", "chain-leaf-first", "chain-root-first", "two-rings", "ring-with-tail", "two-chains",
                "random-tree", "random-tree-plus-back-edge"]


@st.composite
def large_strategy(draw, tier):
    return {"n": draw(st.sampled_from(LARGE_N)), "shape": draw(st.sampled_from(LARGE_SHAPES)), "seed": draw(st.integers(0, 2 ** 31 - 1)),
            "rows": draw(st.sampled_from(["id-order", "id-order", "reversed", "shuffled"]))}


def _large_table(case):
    n, shape = case["n"], case["shape"]
    rs = np.random.RandomState(case["seed"])
    if shape == "ring-forward":
        p = [(i + 1) % n for i in range(n)]
    elif shape == "ring-backward":
        p = [(i - 1) % n for i in range(n)]
    elif shape == "chain-leaf-first":
        p = [i + 1 for i in range(n - 1)] + [-1]
    elif shape == "chain-root-first":
        p = [-1] + list(range(n - 1))
    elif shape == "two-rings":
        m = n // 2
        p = [(i + 1) % m for i in range(m)] + [m + (i + 1) % (n - m) for i in range(n - m)]
    elif shape == "ring-with-tail":
        m = max(3, n // 3)
        p = [(i + 1) % m for i in range(m)] + [i - 1 for i in range(m, n)]
    elif shape == "two-chains":
        m = n // 2
        p = [i + 1 for i in range(m - 1)] + [-1] + [-1] + list(range(m, n - 1))
    else:
        perm = rs.permutation(n)
        p = [-1] * n
        for k in range(1, n):
            p[int(perm[k])] = int(perm[int(rs.randint(max(0, k - 3), k))])  # deep random tree over a random labelling
        if shape == "random-tree-plus-back-edge":
            p[int(perm[0])] = int(perm[int(rs.randint(n // 2, n))])
    rows = list(range(n))
    if case["rows"] == "reversed":
        rows.reverse()
    elif case["rows"] == "shuffled":
        rows = [int(v) for v in rs.permutation(n)]
    return p, rows


def _ref_fast(p):
    """(connected, cyclic, sorted, bif_all, bif_nonroot) in linear time."""
    n = len(p)
    up = list(range(n))

    def find(a):
        while up[a] != a:
            up[a] = up[up[a]]
            a = up[a]
        return a

    for i, q in enumerate(p):
        if q >= 0:
            up[find(i)] = find(q)
    connected = len({find(i) for i in range(n)}) == 1
    state = [0] * n  # 0 new, 1 on the current walk, 2 done
    cyclic = False
    for i in range(n):
        walk, j = [], i
        while j >= 0 and state[j] == 0:
            state[j] = 1
            walk.append(j)
            j = p[j]
        if j >= 0 and state[j] == 1:
            cyclic = True
        for v in walk:
            state[v] = 2
    cnt = [0] * n
    for q in p:
        if q >= 0:
            cnt[q] += 1
    return (connected, cyclic, all(q < i for i, q in enumerate(p) if q >= 0), all(c <= 2 for c in cnt),
            all(c <= 2 for i, c in enumerate(cnt) if p[i] != -1))


def run_large(case, ctx):
    import pandas as pd

    from swcgeom.core.swc_utils import get_dsu, has_cyclic, is_bifurcate, is_single_root, is_sorted

    p, rows = _large_table(case)
    n = len(p)
    conn, cyc, srt, ba, bn = _ref_fast(p)
    ctx.cls("large:" + case["shape"], "rows:" + case["rows"], "cyclic" if cyc else "acyclic", "connected" if conn else "disconnected")
    if n >= 1000:
        ctx.cls("n>=1000")
    ctx.nontrivial(True)
    ids = np.array(rows, dtype=np.int64)
    pids = np.array([p[i] for i in rows], dtype=np.int64)
    df = pd.DataFrame({"id": ids, "pid": pids})
    info = lambda: f"{case['shape']} of {n} rows, rows {case['rows']}"  # noqa
    got = ctx.timed("is_single_root", limit=20.0, fn=lambda: ctx.lib("is_single_root", is_single_root, df))
    ctx.check(bool(got) == conn, "is_single_root/all-nodes-connected", lambda: f"{info()}: got {got}, expected {conn}")
    if not cyc:
        lab = ctx.timed("get_dsu", limit=20.0, fn=lambda: ctx.lib("get_dsu", get_dsu, df))
        ctx.check(len(set(int(v) for v in lab)) == sum(1 for q in p if q == -1), "get_dsu/labels-are-the-components",
                  lambda: f"{info()}: {len(set(int(v) for v in lab))} labels")
    got = ctx.timed("has_cyclic", limit=20.0, fn=lambda: ctx.lib("has_cyclic", has_cyclic, (ids, pids)))
    ctx.check(bool(got) == cyc, "has_cyclic/some-node-reaches-itself", lambda: f"{info()}: got {got}, expected {cyc}")
    got = ctx.lib("is_bifurcate", is_bifurcate, (ids, pids), exclude_root=False)
    ctx.check(bool(got) == ba, "is_bifurcate/no-node-has-more-than-two-children", lambda: f"{info()}: got {got}, expected {ba}")
    if case["rows"] == "id-order":
        got = ctx.timed("is_sorted", limit=20.0, fn=lambda: ctx.lib("is_sorted", is_sorted, (ids, pids)))
        ctx.check(bool(got) == srt, "is_sorted/parents-precede-children", lambda: f"{info()}: got {got}, expected {srt}")


def all_tables(tier):
    top = 5 if tier == "quick" else 6
    for n in range(1, top + 1):
        for p in itertools.product(range(-1, n), repeat=n):
            yield {"p": list(p)}


# ----------------------------------------------------------------------------- forests
@st.composite
def forest_strategy(draw, tier):
    n = draw(st.integers(2, 16 if tier == "quick" else 60))
    lab = list(draw(st.permutations(list(range(n)))))
    by = sorted(range(n), key=lambda i: lab[i])
    nroots_target = draw(st.integers(2, min(n, 5)))
    p = [-1] * n
    roots = {by[0]}
    extra = set(draw(st.lists(st.integers(1, n - 1), min_size=nroots_target - 1, max_size=nroots_target - 1,
                              unique=True))) if n > 1 else set()
    for k, i in enumerate(by):
        if k == 0 or k in extra:
            roots.add(i)
            continue
        p[i] = by[draw(st.integers(0, k - 1))]
    if draw(st.booleans()):  # force a root into row 0: swap labels of node 0 and a root
        r0 = min(roots)
        if r0 != 0:
            # relabel: swap nodes 0 and r0
            def sw(v):
                return r0 if v == 0 else 0 if v == r0 else v
            q = [None] * n
            for i in range(n):
                q[sw(i)] = -1 if p[i] == -1 else sw(p[i])
            p = q
    base = draw(st.sampled_from([0, 1, 1, 7, 1000]))
    coord = st.integers(-400, 400).map(lambda v: v / 8.0)
    xyz = [[draw(coord), draw(coord), draw(coord)] for _ in range(n)]
    r = [draw(st.integers(1, 80)) / 16.0 for _ in range(n)]
    ty = [draw(st.integers(0, 7)) for _ in range(n)]
    return {"p": p, "base": base, "xyz": xyz, "r": r, "type": ty,
            "fix": draw(st.sampled_from(["off", "somas", "nearest"])),
            "via": draw(st.sampled_from(["read_swc", "read_swc", "dataframe"])),
            "src": draw(st.sampled_from(["text", "path"])), "reads": draw(st.sampled_from([1, 1, 3])),
            # several roots traced from the same point (fragments that start at one place); a failed read just before
            "roots_at_one_point": draw(st.integers(0, 3)) == 0,
            "failed_read_before": draw(st.sampled_from([None, None, None, "rows-then-garbage", "truncated-row"]))}


def run_forest(case, ctx):
    import pandas as pd

    from swcgeom.core.swc_utils import (link_roots_to_nearest, link_roots_to_nearest_,
                                        mark_roots_as_somas, mark_roots_as_somas_, read_swc,
                                        reset_index, reset_index_)

    p, base, xyz, r, ty, fix, via = (case[k] for k in ("p", "base", "xyz", "r", "type", "fix", "via"))
    n = len(p)
    roots = [i for i, q in enumerate(p) if q == -1]
    if case.get("roots_at_one_point") and len(roots) >= 3:
        xyz = [list(v) for v in xyz]
        for i in roots[2:]:
            xyz[i] = list(xyz[roots[1]])  # every root after the first shares the second root's position
        ctx.cls("several-roots-at-one-point")
    if case.get("failed_read_before"):
        from vlib import gen_swc

        gen_swc.fail_some_reads(ctx.tmpdir, case["failed_read_before"])
        ctx.cls("read-after-a-failed-read")
    first_row_root = roots[0] == 0
    _, _, _, _, _, blocks = ref_table(p)
    sizes = {}
    for b in blocks:
        sizes[b] = sizes.get(b, 0) + 1
    big = sum(1 for v in sizes.values() if v >= 2)
    ctx.cls(f"fix:{fix}", f"via:{via}", f"base:{'0' if base == 0 else '1' if base == 1 else 'k'}",
            "root-in-row-0" if first_row_root else "first-root-later", f"roots:{min(len(roots), 4)}")
    ctx.nontrivial(base != 0 and big >= 2)
    ids0 = [i + base for i in range(n)]
    pids0 = [q + base if q >= 0 else -1 for q in p]

    msgs = []
    if via == "read_swc":
        txt = "".join(f"{ids0[i]} {ty[i]} {xyz[i][0]} {xyz[i][1]} {xyz[i][2]} {r[i]} {pids0[i]}\n" for i in range(n))
        with warnings.catch_warnings(record=True) as w:
            warnings.simplefilter("always")
            if case.get("src") == "path":
                import os

                fpath = os.path.join(ctx.tmpdir, "forest.swc")
                with open(fpath, "w", encoding="utf-8") as fh:
                    fh.write(txt)
                ctx.cls("forest-read-from-a-file")
                mk = lambda: fpath  # noqa
            else:
                fpath = None
                mk = lambda: io.StringIO(txt)  # noqa
            df, _ = ctx.lib(f"forest/read_swc[fix_roots={fix}]", read_swc, mk(),
                            fix_roots=False if fix == "off" else fix, reset_index=first_row_root)
        msgs = [str(x.message) for x in w]
        later_msgs = []
        for _rep in range(case.get("reads", 1) - 1):
            # the same source read again: every read is a read of a file with several roots
            with warnings.catch_warnings(record=True) as w2:
                warnings.simplefilter("always")
                df2, _ = ctx.lib(f"forest/read_swc[fix_roots={fix}]", read_swc, mk(),
                                 fix_roots=False if fix == "off" else fix, reset_index=first_row_root)
            later_msgs.append([str(x.message) for x in w2])
            ctx.check(df2.equals(df), "forest/read-again-gives-the-same-table", "")
        if later_msgs:
            ctx.cls("same-forest-read-again")
        shift = ids0[0] if first_row_root else 0
    else:
        src = pd.DataFrame({"id": np.array(ids0, dtype=np.int32), "type": np.array(ty, dtype=np.int32),
                            "x": np.array([v[0] for v in xyz], dtype=np.float32),
                            "y": np.array([v[1] for v in xyz], dtype=np.float32),
                            "z": np.array([v[2] for v in xyz], dtype=np.float32),
                            "r": np.array(r, dtype=np.float32), "pid": np.array(pids0, dtype=np.int32)})
        keep = src.copy(deep=True)
        inplace = bool(sum(ty) % 2)
        ctx.cls("df:inplace" if inplace else "df:pure")
        if fix == "off":
            if not first_row_root:
                ctx.cls("df:reset-skipped")
                return
            fn_pure, fn_in = reset_index, reset_index_
            shift = ids0[0]
        elif fix == "somas":
            fn_pure, fn_in = mark_roots_as_somas, mark_roots_as_somas_
            shift = 0
        else:
            fn_pure, fn_in = link_roots_to_nearest, link_roots_to_nearest_
            shift = 0
        if inplace:
            ctx.lib(f"forest/{fn_in.__name__}", fn_in, src)
            df = src
        else:
            df = ctx.lib(f"forest/{fn_pure.__name__}", fn_pure, src)
            ctx.check(src.equals(keep), f"forest/{fn_pure.__name__}-leaves-its-argument-unchanged", "")
            ctx.check(df is not src, f"forest/{fn_pure.__name__}-returns-a-new-table", "")

    ctx.check(len(df) == n, "forest/every-row-kept", f"{len(df)} rows, expected {n}")
    ids = [int(v) for v in df["id"]]
    pid = [int(v) for v in df["pid"]]
    ctx.check(ids == [v - shift for v in ids0], "forest/ids", lambda: f"ids {ids}, expected {[v - shift for v in ids0]}")
    for i in range(n):
        if p[i] >= 0:
            ctx.check(pid[i] == pids0[i] - shift, "forest/every-original-edge-kept",
                      lambda: f"row {i}: parent {pid[i]}, expected {pids0[i] - shift} (table {p}, base {base}, fix {fix})")
    for k, col in enumerate("xyz"):
        ctx.check([float(v) for v in df[col]] == [v[k] for v in xyz], "forest/attributes-kept", f"column {col}")
    ctx.check([float(v) for v in df["r"]] == r, "forest/attributes-kept", "column r")
    got_ty = [int(v) for v in df["type"]]
    for i in range(n):
        ok = got_ty[i] == ty[i] or (fix == "somas" and i in roots[1:] and got_ty[i] == 1)
        ctx.check(ok, "forest/attributes-kept", lambda: f"type of row {i}: {got_ty[i]} != {ty[i]}")
    if fix == "off":
        ctx.check(all(pid[i] == -1 for i in roots), "forest/every-root-stays-a-root",
                  lambda: f"root rows {roots} have parents {[pid[i] for i in roots]} (base {base})")
        if via == "read_swc":
            # "with a warning": some warning that the same rows would not draw if all roots but the first were linked
            # to it (whatever its category or wording)
            import re

            pids1 = [pids0[i] if p[i] >= 0 or i == roots[0] else ids0[roots[0]] for i in range(n)]
            txt1 = "".join(f"{ids0[i]} {ty[i]} {xyz[i][0]} {xyz[i][1]} {xyz[i][2]} {r[i]} {pids1[i]}\n" for i in range(n))
            with warnings.catch_warnings(record=True) as w1:
                warnings.simplefilter("always")
                if fpath is not None:
                    with open(fpath, "w", encoding="utf-8") as fh:  # the control under the very same file name
                        fh.write(txt1)
                ctx.lib("forest/read_swc[single-rooted control]", read_swc, fpath if fpath is not None else io.StringIO(txt1),
                        reset_index=first_row_root)
            norm = lambda m: re.sub(r"0x[0-9a-fA-F]+", "0x", m)  # noqa
            control = {norm(str(x.message)) for x in w1}
            ctx.check(any(norm(m) not in control for m in msgs), "forest/several-roots-warning",
                      lambda: f"warnings: {msgs}; the single-rooted control draws: {sorted(control)}")
            for k, lm in enumerate(later_msgs):
                ctx.check(any(norm(m) not in control for m in lm), "forest/several-roots-warning-on-every-read",
                          lambda: f"read {k + 2} of the same source drew {lm}; the single-rooted control draws: {sorted(control)}")
    else:
        ctx.check(pid[roots[0]] == -1, "forest/first-root-kept", lambda: f"first root row {roots[0]} has parent {pid[roots[0]]}")
        ctx.check(sum(1 for q in pid if q == -1) == 1, "forest/exactly-one-root",
                  lambda: f"parents {pid}")
        pos = {v: k for k, v in enumerate(ids)}
        for i in range(n):
            j, k = i, 0
            while pid[j] != -1:
                ctx.check(pid[j] in pos, "forest/parent-exists", lambda: f"row {j} names parent {pid[j]}")
                j = pos[pid[j]]
                k += 1
                ctx.check(k <= n, "forest/result-is-acyclic", lambda: f"row {i} never reaches a root: {pid}")
            ctx.check(j == roots[0], "forest/every-node-reaches-the-first-root", f"row {i} ends at {j}")


SUBCHECKS = [
    Machine("dsu", dsu_init, {"union": _ARG2, "find": _ARG1, "same": _ARG2, "bad_union": _ARG2},
            dsu_start, dsu_apply, dsu_invariant, dsu_finish, quick=400, thorough=4000,
            steps_quick=30, steps_thorough=80, shards_quick=2,
            required={"dsu:effective>=3": 30, "dsu:cross-class-query": 20}),
    Sub("tables", table_strategy, run_table, quick=6000, thorough=60000, shards_quick=4,
        required={"cyclic": 100, "cycle>=2": 50, "self-loop": 30, "forest": 100, "tree": 50,
                  "rows-shuffled": 200, "not-bif": 50, "bif-except-root": 10}),
    Enumerate("tables_all", all_tables, run_table, shards_quick=4, shards_thorough=16),
    Sub("large_tables", large_strategy, run_large, quick=240, thorough=2400, shards_quick=4,
        required={"large:ring-forward": 8, "large:ring-backward": 8, "large:chain-leaf-first": 8, "n>=1000": 10, "rows:shuffled": 22}),
    Sub("forest", forest_strategy, run_forest, quick=3000, thorough=30000, shards_quick=4,
        required={"fix:off": 100, "fix:somas": 100, "fix:nearest": 100, "base:1": 100, "base:k": 100,
                  "first-root-later": 100, "root-in-row-0": 100, "via:dataframe": 100,
                  "forest-read-from-a-file": 300, "same-forest-read-again": 200, "several-roots-at-one-point": 60,
                  "read-after-a-failed-read": 300}),
]
