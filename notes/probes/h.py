import warnings, io, numpy as np
warnings.simplefilter("ignore")
from swcgeom.core import Tree
def mk(pids, xyz=None, r=None, types=None, **extra):
    n=len(pids)
    if xyz is None: xyz=np.random.RandomState(0).randn(n,3)*5
    xyz=np.asarray(xyz,dtype=np.float32)
    return Tree(n, id=np.arange(n,dtype=np.int32), pid=np.array(pids,dtype=np.int32),
        x=xyz[:,0].copy(), y=xyz[:,1].copy(), z=xyz[:,2].copy(),
        r=np.asarray(r if r is not None else np.ones(n),dtype=np.float32),
        type=np.asarray(types if types is not None else [1]+[3]*(n-1),dtype=np.int32), **extra)
