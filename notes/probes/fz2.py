#!/venv/bin/python
import sys, io, warnings
sys.path.insert(0,"/tmp/explore/deps")
import atheris
with atheris.instrument_imports(include=["swcgeom.transforms.neurolucida_asc"]):
    from swcgeom.transforms.neurolucida_asc import NeurolucidaAscToSwc
from hypothesis import given, settings, strategies as st, HealthCheck
warnings.simplefilter("ignore")
pt = st.tuples(*[st.integers(-99,99)]*4)
def branch(depth):
    pts = st.lists(pt, min_size=1, max_size=4)
    if depth==0: return st.tuples(pts, st.none())
    alt = st.one_of(st.none(), st.deferred(lambda: branch(depth-1)))
    return st.tuples(pts, st.one_of(st.none(), st.lists(alt, min_size=2, max_size=3)))
def render(b, parent, nodes, out):
    pts, split = b; cur=parent
    for p in pts:
        out.append("(%d %d %d %d)"%p); nodes.append(p+(cur,)); cur=len(nodes)-1
    if split is not None:
        out.append("(")
        for i,a in enumerate(split):
            if i: out.append("|")
            if a is not None: render(a,cur,nodes,out)
        out.append(")")
cnt=[0]; fails=[0]
@settings(database=None, deadline=None, suppress_health_check=list(HealthCheck))
@given(branch(3))
def test(b):
    cnt[0]+=1
    nodes=[]; out=["(","(Axon)"]; render(b,-1,nodes,out); out.append(")")
    t=NeurolucidaAscToSwc.from_stream(io.StringIO(" ".join(out)))
    assert len(t)==len(nodes) and t.pid().tolist()==[n[4] for n in nodes], " ".join(out)
atheris.Setup(sys.argv, test.hypothesis.fuzz_one_input)
atheris.Fuzz()
