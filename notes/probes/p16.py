from h import *
from swcgeom.transforms import IsometricResampler
rs=np.random.RandomState(21)
def children(p):
    ch=[[] for _ in p]
    for i,q in enumerate(p):
        if q>=0: ch[q].append(i)
    return ch
def ref_branches(p):
    ch=children(p); crit=[i for i in range(len(p)) if i==0 or len(ch[i])!=1]
    out=[]
    for s in crit:
        for c in ch[s]:
            b=[s,c]
            while len(ch[b[-1]])==1: b.append(ch[b[-1]][0])
            out.append(b)
    return out
def polyline_point(P,s):
    seg=np.linalg.norm(np.diff(P[:,:3],axis=0),axis=1); cum=np.r_[0,np.cumsum(seg)]
    return np.array([np.interp(s,cum,P[:,k]) for k in range(P.shape[1])])
fails={}
def rec(k,v): fails.setdefault(k,[]).append(v)
N=400
for trial in range(N):
    n=rs.randint(2,18); p=[-1]+[rs.randint(0,i) for i in range(1,n)]
    if trial%4==0: p=[-1,0]+[rs.randint(1,i) for i in range(2,n)]  # root degree 1
    ch=children(p)
    # distinct lattice positions for all nodes, then optionally collapse pass-through nodes onto parent
    pts=set()
    while len(pts)<n: pts.add(tuple(rs.randint(-40,40,3)))
    xyz=(np.array(list(pts))/4).astype(np.float32); rs.shuffle(xyz)
    for i in range(1,n):
        if len(ch[i])==1 and rs.rand()<.2: xyz[i]=xyz[p[i]]
    r=(rs.rand(n)+.2).astype(np.float32); ty=rs.randint(0,8,n)
    t=mk(p,xyz=xyz,r=r,types=ty)
    d=float(np.exp(rs.uniform(np.log(.1),np.log(15))))
    try: y=IsometricResampler(d)(t)
    except Exception as e: rec("ERR "+type(e).__name__+" "+str(e)[:60],(p,d)); continue
    # oracle
    yp=y.pid().tolist(); ych=children(yp); m=len(yp)
    ok = y.id().tolist()==list(range(m)) and yp[0]==-1 and all(0<=q<i for i,q in enumerate(yp) if i>0)
    if not ok: rec("illformed",(p,d,yp)); continue
    # walk: match critical nodes
    x64=xyz.astype(float); yx=y.xyz().astype(float)
    refb={}; 
    for b in ref_branches(p): refb.setdefault(b[0],[]).append(b)
    ybs={}
    for b in ref_branches(yp): ybs.setdefault(b[0],[]).append(b)
    stack=[(0,0)]; matched=0; bad=None
    if not (np.array_equal(y.xyz()[0],xyz[0]) and y.r()[0]==r[0] and y.type()[0]==ty[0]): bad="root attrs"
    while stack and not bad:
        o,q=stack.pop()
        ob=refb.get(o,[]); yb=ybs.get(q,[])
        if len(ob)!=len(yb): bad=("branch count",o,len(ob),len(yb)); break
        used=set()
        for B in ob:
            e=B[-1]
            cand=[k for k,Y in enumerate(yb) if k not in used and np.array_equal(y.xyz()[Y[-1]],xyz[e]) and y.r()[Y[-1]]==r[e] and y.type()[Y[-1]]==ty[e]]
            if not cand: bad=("no matching end",B); break
            k=cand[0]; used.add(k); Y=yb[k]
            P=x64[B]; L=np.linalg.norm(np.diff(P,axis=0),axis=1).sum()
            mm=len(Y)-1  # number of steps
            want=max(int(np.ceil(L/d)),1) if L>0 else 1
            if L==0: want=1
            near=abs(L/d-round(L/d))<1e-6
            if mm!=want and not (near and abs(mm-want)<=1): bad=("count",B,L,d,mm,want); break
            for j,node in enumerate(Y):
                s=L*j/mm; 
                if np.linalg.norm(yx[node]-polyline_point(P,s))>1e-4*(1+L)+1e-5: bad=("pos",B,j,yx[node],polyline_point(P,s)); break
                rr=polyline_point(np.c_[P,r[B]],s)[3]
                segl=np.linalg.norm(np.diff(P,axis=0),axis=1); cumk=np.r_[0,np.cumsum(segl)]
                dupk=[cumk[q] for q in range(len(segl)) if segl[q]==0]
                if any(abs(s-u)<=1e-6*(1+L) for u in dupk): continue
                if abs(y.r()[node]-rr)>1e-4*(1+rr): bad=("rad",B,j,y.r()[node],rr); break
            if bad: break
            gaps=np.linalg.norm(np.diff(yx[Y],axis=0),axis=1)
            stack.append((e,Y[-1])); matched+=1
    if bad: rec("oracle",(p,d,bad)); continue
    if y.length()>t.length()*(1+1e-5)+1e-6: rec("length grows",(p,d,t.length(),y.length()))
print("cases",N,{k:len(v) for k,v in fails.items()})
for k,v in fails.items(): print(k,v[:2])
