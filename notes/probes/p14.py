from h import *
exec(open("e17.py").read().split("def rot(rs)")[0].split("rs = np.random.RandomState(7)")[1])
from swcgeom.analysis import get_volume
rs=np.random.RandomState(3)
worst=0; N=1500; overl=0
for trial in range(N):
    two=rs.rand()<.3
    def arm(k,x0,r0,sgn):
        xs=[x0]; r=[r0]
        for _ in range(k):
            rn=float(np.exp(rs.uniform(np.log(.1),np.log(5))))
            m=max(r[-1],rn); 
            L=m*rs.choice([1.0, 1+rs.rand()*.5, 1+rs.rand()*3]) 
            xs.append(xs[-1]+sgn*L); r.append(rn)
        return xs,r
    r0=float(np.exp(rs.uniform(np.log(.1),np.log(5))))
    xa,ra=arm(rs.randint(1,6),0.0,r0,+1)
    nodes=[(x,r) for x,r in zip(xa,ra)]; pids=[-1]+list(range(len(xa)-1))
    if two:
        xb,rb=arm(rs.randint(1,5),0.0,r0,-1)
        pids+= [0]+list(range(len(nodes),len(nodes)+len(xb)-2)); nodes+= list(zip(xb[1:],rb[1:]))
    u=rs.randn(3); u/=np.linalg.norm(u); c=rs.randn(3)*5
    xyz=np.array([c+u*x for x,_ in nodes]); rad=np.array([r for _,r in nodes])
    t=mk(pids,xyz=xyz,r=rad)
    X=[float((xyz[i].astype(np.float32).astype(float)-xyz[0].astype(np.float32).astype(float))@u) for i in range(len(nodes))]; R=[float(np.float32(r)) for r in rad]
    qs=[sph(x,r) for x,r in zip(X,R)]
    for i,p in enumerate(pids):
        if p>=0:
            a,b=sorted([(X[p],R[p]),(X[i],R[i])]); qs.append(fru(a[0],a[1],b[0],b[1]))
            if abs(X[i]-X[p])<R[i]+R[p]: overl+=1
    lo=min(x-r for x,r in zip(X,R))-1; hi=max(x+r for x,r in zip(X,R))+1
    want=integ_piecewise(qs,lo,hi,'max')
    for acc in (3,4) if two else (3,5,9):
        got=float(get_volume(t,accuracy=acc)); e=abs(got-want)/want
        if e>worst: worst=e; print(trial,"two" if two else "chain",acc,"rel err",e,"n",len(nodes))
print("cases",N,"overlapping compartments",overl,"worst",worst)
