from h import *
from decimal import Decimal, ROUND_HALF_EVEN
from swcgeom.transforms import PointsToCuntzMST, CutByFurcationOrder, CutShortTipBranch
from swcgeom.core import cut_tree
rs=np.random.RandomState(2)
# 1. Cuntz greedy re-simulation
def ref_greedy(P,bf,k,excl):
    n=len(P); D=np.linalg.norm(P[:,None]-P[None],axis=2)
    pid=[-1]*n; acc=[0.0]*n; conn=[0]; cnt=[0]*n; sat=set(); amb=False
    un=set(range(1,n))
    while un:
        best=None; second=None
        for i in conn:
            if i in sat: continue
            for j in un:
                c=D[i,j]+bf*acc[i]
                if best is None or c<best[0]: second=best; best=(c,i,j)
                elif second is None or c<second[0]: second=(c,i,j)
        c,i,j=best
        if second and abs(second[0]-c)<1e-9*(1+c): amb=True
        pid[j]=i; acc[j]=acc[i]+D[i,j]; conn.append(j); un.discard(j); cnt[i]+=1
        if k!=-1 and cnt[i]>=k and (not excl or i!=0): sat.add(i)
    return pid,amb
bad=0; tot=0
for trial in range(300):
    n=rs.randint(2,25); P=rs.rand(n,3)*10; bf=rs.rand(); k=rs.choice([-1,1,2,3]); excl=bool(rs.randint(2))
    t=PointsToCuntzMST(bf=bf,furcations=k,exclude_soma=excl,sort=False)(P)
    ref,amb=ref_greedy(P,np.clip(bf,0,1),k,excl); tot+=1
    if list(t.pid())!=ref and not amb: bad+=1; print("greedy mismatch",n,bf,k,excl)
print("greedy: cases",tot,"bad",bad)
# 2. cut rules
def children(p):
    ch=[[] for _ in p]
    for i,q in enumerate(p):
        if q>=0: ch[q].append(i)
    return ch
bad=0
for trial in range(400):
    n=rs.randint(1,20); p=[-1]+[rs.randint(0,i) for i in range(1,n)]
    xyz=(rs.randint(-20,20,(n,3))/4).astype(np.float32); t=mk(p,xyz=xyz,tag=np.arange(n,dtype=np.int32))
    ch=children(p)
    k=rs.randint(0,4)
    def level(i):
        c=0
        while p[i]!=-1:
            if len(ch[i])>1: c+=1
            i=p[i]
        return c
    want={i for i in range(n) if all(level(a)<k for a in [i])}  # level monotone along path
    # ancestors removal propagates: level is monotone non-decreasing downward so fine
    got=set(CutByFurcationOrder(k)(t).ndata["tag"].tolist())
    if got!=want: bad+=1; print("furc order mismatch",p,k,got,want)
    # short tip
    thre=rs.choice([0.5,1,2,4,8])
    x64=xyz.astype(float); rem=set(); amb=False
    for tip in [i for i in range(n) if not ch[i]]:
        L=0; i=tip; nodes=[]
        while p[i]!=-1 and len(ch[p[i]])==1: L+=np.linalg.norm(x64[i]-x64[p[i]]); nodes.append(i); i=p[i]
        if p[i]==-1: continue   # reached root without furcation
        L+=np.linalg.norm(x64[i]-x64[p[i]]); nodes.append(i)
        if abs(L-thre)<1e-4*(1+thre): amb=True
        if L<=thre: rem|=set(nodes)
    want=set(range(n))-rem
    got=set(CutShortTipBranch(thre)(t).ndata["tag"].tolist())
    if got!=want and not amb: bad+=1; print("short tip mismatch",p,thre,sorted(got),sorted(want))
print("cut rules bad",bad)
# 5. Decimal rounding oracle vs round trip on extreme float32
vals=np.array([0,-0.0,1e-45,1.17549435e-38,3.4028235e38,-3.4028235e38,0.00005,0.00015,1.00005,123456.789,2.5e-5,0.99995,1e10/3],dtype=np.float32)
t=mk([-1]+list(range(len(vals)-1)), xyz=np.c_[vals,vals,vals], r=np.abs(vals)+1)
t2=Tree.from_swc(io.StringIO(t.to_swc()))
exp=np.array([np.float32(float(Decimal(float(v)).quantize(Decimal("0.0001"),rounding=ROUND_HALF_EVEN))) for v in vals])
print("decimal oracle agrees:", np.array_equal(exp,t2.x()), t2.x()[:6])
