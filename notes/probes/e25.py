from h import *
from swcgeom.core import cat_tree, redirect_tree
rs=np.random.RandomState(9)
def rand_p(n): return [-1]+[rs.randint(0,i) for i in range(1,n)]
def lat(n): return (rs.randint(-200,200,(n,3))/8).astype(np.float32)
bad=0; merged=0; N=500
for trial in range(N):
    n1,n2=rs.randint(1,10),rs.randint(1,10); p1,p2=rand_p(n1),rand_p(n2)
    x1,x2=lat(n1),lat(n2)
    t1=mk(p1,xyz=x1,types=rs.randint(0,8,n1),r=rs.rand(n1)+.1,tag=np.arange(n1,dtype=np.int32),only1=rs.rand(n1).astype(np.float32))
    t2=mk(p2,xyz=x2,types=rs.randint(0,8,n2),r=rs.rand(n2)+.1,tag=np.arange(100,100+n2,dtype=np.int32),only2=rs.rand(n2).astype(np.float32))
    a,b=rs.randint(n1),rs.randint(n2); tr=bool(rs.randint(2))
    if not tr and rs.rand()<.3: t2.ndata["x"][b],t2.ndata["y"][b],t2.ndata["z"][b]=x1[a]
    try:
        c=cat_tree(t1,t2,a,b,translate=tr)
        tags=c.ndata["tag"].tolist(); pos={g:i for i,g in enumerate(tags)}
        coincide = tr or np.array_equal(t2.xyz()[b],x1[a])
        merged+=coincide
        # expected tree2 undirected edges, rerooted at b
        exp_tags=set(range(n1))|{100+i for i in range(n2) if not (coincide and i==b)}
        assert set(tags)==exp_tags and len(tags)==len(exp_tags), ("tags",tags,exp_tags)
        assert "only1" in c.ndata and "only2" not in c.ndata
        # tree1 rows unchanged
        for i in range(n1):
            j=pos[i]
            for k in ("type","x","y","z","r","only1"): assert c.ndata[k][j]==t1.ndata[k][i],(k,i)
            assert (c.pid()[j]==-1 and p1[i]==-1) or tags[c.pid()[j]]==p1[i]
        shift = (x1[a]-t2.xyz()[b]) if tr else np.zeros(3,np.float32)
        # tree2 edges as parent relation after reroot at b
        adj={i:set() for i in range(n2)}
        for i,q in enumerate(p2):
            if q>=0: adj[i].add(q); adj[q].add(i)
        par={b:None}; st=[b]
        while st:
            u=st.pop()
            for v in adj[u]:
                if v not in par: par[v]=u; st.append(v)
        # types after redirect: swap root(0) and b types
        ty=t2.type().copy(); ty[0],ty[b]=ty[b],ty[0]
        for i in range(n2):
            if coincide and i==b: continue
            j=pos[100+i]
            assert np.array_equal(c.xyz()[j], t2.xyz()[i]+shift),("xyz",i)
            assert c.r()[j]==t2.r()[i] and c.type()[j]==ty[i],("type",i,c.type()[j],ty[i])
            assert c.ndata["only1"][j]==0
            pj=tags[c.pid()[j]]
            want = (100+par[i]) if par[i] is not None else a
            if coincide and par[i]==b: want=a
            assert pj==want,("parent",i,pj,want)
    except AssertionError as e:
        bad+=1
        if bad<5: print("FAIL",p1,p2,a,b,tr,e)
print("cat cases",N,"merged",merged,"bad",bad)
