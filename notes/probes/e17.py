from h import *
from swcgeom.utils import VolSphere, VolFrustumCone
rs = np.random.RandomState(7)
def integ_piecewise(qs, lo, hi, mode):
    """qs: list of (a,b,c,zlo,zhi) quadratics r^2(z)=a z^2+b z+c valid on [zlo,zhi] (0 outside). mode 'max' or 'min' over the set, min only where all defined."""
    bps={lo,hi}
    for (a,b,c,l,h) in qs: bps.update([l,h])
    # roots of each quadratic (clip at zero) and pairwise intersections
    def roots(a,b,c):
        if abs(a)<1e-300:
            return [] if abs(b)<1e-300 else [-c/b]
        d=b*b-4*a*c
        if d<0: return []
        s=np.sqrt(d); return [(-b-s)/(2*a),(-b+s)/(2*a)]
    for i,(a,b,c,l,h) in enumerate(qs):
        bps.update(roots(a,b,c))
        for (a2,b2,c2,l2,h2) in qs[i+1:]:
            bps.update(roots(a-a2,b-b2,c-c2))
    bps=sorted(z for z in bps if lo<=z<=hi)
    tot=0.0
    for z0,z1 in zip(bps,bps[1:]):
        if z1-z0<=0: continue
        zm=(z0+z1)/2
        vals=[]
        for (a,b,c,l,h) in qs:
            if l<=zm<=h: vals.append((max(a*zm*zm+b*zm+c,0),(a,b,c)))
            else: vals.append((0.0,(0,0,0)))
        pick = max(vals,key=lambda v:v[0]) if mode=='max' else min(vals,key=lambda v:v[0])
        if pick[0]<=0: continue
        a,b,c=pick[1]
        F=lambda z:a*z**3/3+b*z*z/2+c*z
        tot+=F(z1)-F(z0)
    return np.pi*tot
def sph(zc,r): return (-1.0,2*zc,r*r-zc*zc,zc-r,zc+r)
def fru(z1,r1,z2,r2):
    k=(r2-r1)/(z2-z1); # r=r1+k(z-z1)
    return (k*k, 2*k*(r1-k*z1), (r1-k*z1)**2, z1, z2)
def rot(rs):
    v=rs.randn(3); v/=np.linalg.norm(v); return v
worst={}
def upd(k,err,info):
    if err>worst.get(k,(0,))[0]: worst[k]=(err,info)
for trial in range(20000):
    r1,r2=np.exp(rs.uniform(np.log(.05),np.log(50),2)); 
    u=rot(rs); c=rs.randn(3)*10
    # sphere-sphere
    mode=rs.randint(5)
    d = [rs.uniform(0,1.2*(r1+r2)), abs(r1-r2), r1+r2, 0.0, rs.uniform(0,abs(r1-r2)+1e-9)][mode]
    s1=VolSphere(c,r1); s2=VolSphere(c+u*d,r2)
    got=s1.intersect(s2).get_volume(); want=integ_piecewise([sph(0,r1),sph(d,r2)],-r1-r2-d,r1+r2+d+1,'min')
    scale=4/3*np.pi*min(r1,r2)**3
    upd("ss_int",abs(got-want)/scale,(r1,r2,d,got,want))
    got=s1.union(s2).get_volume(); want=integ_piecewise([sph(0,r1),sph(d,r2)],-r1-r2-d-1,r1+r2+d+1,'max')
    upd("ss_uni",abs(got-want)/want,(r1,r2,d,got,want))
    # sphere-frustum concentric at c1 (radius r1)
    h=np.exp(rs.uniform(np.log(.05),np.log(50)))
    if rs.rand()<.2: r2=r1
    if rs.rand()<.1: h=r1
    fc=VolFrustumCone(c,r1,c+u*h,r2); s=VolSphere(c,r1)
    np.random.seed(trial)
    try:
        got=s.intersect(fc).get_volume()
        want=integ_piecewise([sph(0,r1),fru(0,r1,h,r2)],-r1-1,h+r1+1,'min')
        sc=min(2/3*np.pi*r1**3, np.pi*h*(r1*r1+r1*r2+r2*r2)/3)
        upd("sf_int",abs(got-want)/sc,(r1,r2,h,got,want))
        got=s.union(fc).get_volume(); want=integ_piecewise([sph(0,r1),fru(0,r1,h,r2)],-r1-1,h+r1+1,'max')
        upd("sf_uni",abs(got-want)/want,(r1,r2,h,got,want))
        # concentric at the other end
        s_b=VolSphere(c+u*h,r2); got=s_b.intersect(fc).get_volume(); want=integ_piecewise([sph(h,r2),fru(0,r1,h,r2)],-r1-r2-1,h+r2+1,'min')
        sc=min(2/3*np.pi*r2**3, np.pi*h*(r1*r1+r1*r2+r2*r2)/3)
        upd("sf_int_b",abs(got-want)/sc,(r1,r2,h,got,want))
    except Exception as e:
        upd("ERR "+type(e).__name__+str(e)[:50],1,(r1,r2,h))
for k,v in worst.items(): print(k,v)
