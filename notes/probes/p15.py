from h import *
from swcgeom.transforms import NeurolucidaAscToSwc
rs=np.random.RandomState(33)
def ws(): return "".join(rs.choice([" ","\t","\n"],size=rs.randint(1,4)))
def ows(): return "" if rs.rand()<.3 else ws()
def num():
    v=rs.randint(-2000,2000)/rs.choice([1,2,4,8,10,100])
    f=rs.choice(["%g","%.3f","%e","%+g"]); return (f%v), float(f%v)
def gen_branch(depth, parent, nodes, toks, allow_empty=True):
    """emit tokens for a branch; nodes: list of (x,y,z,r,pid)"""
    k = rs.randint(0,4) if allow_empty else rs.randint(1,4)
    cur=parent
    for _ in range(k):
        vals=[num() for _ in range(4)]
        toks.append("("+ows()+ws().join(v[0] for v in vals)+ows()+")")
        nodes.append(tuple(np.float32(v[1]) for v in vals)+(cur,)); cur=len(nodes)-1
        if rs.rand()<.15: toks.append("(Color "+rs.choice(["Red","Blue","RGB"])+")")
        if rs.rand()<.15: toks.append("; a comment ( | ) 1 2\n")
    if depth>0 and rs.rand()<.6 and k>0:
        toks.append("(")
        nalt=rs.randint(1,4)
        for a in range(nalt):
            if a>0: toks.append("|")
            gen_branch(depth-1, cur, nodes, toks, allow_empty=(nalt>1))
        toks.append(")")
def gen_doc(depth):
    toks=["("]; nodes=[]
    if rs.rand()<.3: toks.append("(Color Green)")
    lab=rs.choice(["Axon","Dendrite","AXON","dendrite"]); toks.append("("+lab+")")
    gen_branch(depth,-1,nodes,toks,allow_empty=False)
    toks.append(")")
    return toks,nodes,(2 if lab.upper()=="AXON" else 3)
def conv(s): 
    t=NeurolucidaAscToSwc.from_stream(io.StringIO(s)); return t
bad={}; N=1500; ok=0; trunc_tested=0
for trial in range(N):
    toks,nodes,ty=gen_doc(rs.randint(0,5))
    doc=ows()+"".join(t+ws() for t in toks)
    try:
        t=conv(doc)
        got=[(t.x()[i],t.y()[i],t.z()[i],t.r()[i],int(t.pid()[i])) for i in range(len(t))]
        if len(got)!=len(nodes) or any(g!=n for g,n in zip(got,nodes)) or any(t.type()!=ty):
            bad.setdefault("mismatch",[]).append((doc,len(got),len(nodes)))
        else: ok+=1
    except Exception as e:
        bad.setdefault("ERR "+type(e).__name__+":"+str(e.__cause__)[:50],[]).append(doc)
    # truncations at token level
    for cut in rs.choice(len(toks), size=min(3,len(toks)), replace=False):
        d2=" ".join(toks[:cut]); trunc_tested+=1
        try:
            t=conv(d2); bad.setdefault("truncation accepted",[]).append((d2,len(t)))
        except ValueError: pass
        except Exception as e: bad.setdefault("trunc other exc "+type(e).__name__,[]).append(d2)
print("docs",N,"ok",ok,"trunc",trunc_tested,{k:len(v) for k,v in bad.items()})
for k,v in bad.items(): print("--",k); print(repr(v[0])[:600])
