from h import *
from swcgeom.core import sort_tree, get_subtree, to_subtree, cut_tree, redirect_tree, cat_tree
from swcgeom.transforms import *
rs=np.random.RandomState(17)
def wf(t):
    n=len(t); ids=t.id(); p=t.pid()
    assert n>0
    assert (ids==np.arange(n)).all(),"ids"
    assert p[0]==-1 and (p[1:]>=0).all() and (p[1:]<np.arange(1,n)).all(),("pid",p)
errs={}; steps=0
def newtree():
    n=rs.randint(1,14); p=[-1]+[rs.randint(0,i) for i in range(1,n)]
    xyz=(rs.randint(-80,80,(n,3))/8).astype(np.float32)
    for i in range(1,n):
        if rs.rand()<.1: xyz[i]=xyz[p[i]]
    return mk(p,xyz=xyz,r=rs.rand(n)+.1,types=rs.randint(0,5,n),tag=rs.randint(0,10**6,n).astype(np.int32))
for trial in range(300):
    pool=[newtree(),newtree()]
    for step in range(12):
        t=pool[rs.randint(len(pool))]; n=len(t); k=rs.randint(n)
        ops={
         "sort":lambda: sort_tree(t), "subtree":lambda: get_subtree(t,k), "to_subtree":lambda: to_subtree(t,[int(x) for x in rs.choice(np.arange(1,n),size=rs.randint(0,n),replace=False)] if n>1 else []),
         "cut_enter":lambda: cut_tree(t,enter=lambda nd,p_:(0,bool(nd.id!=0 and nd.id%3==0))), "cut_leave":lambda: cut_tree(t,leave=lambda nd,ch:(0,bool(nd.id!=0 and nd.id%4==0))),
         "redirect":lambda: redirect_tree(t,k), "cat":lambda: cat_tree(t,pool[rs.randint(len(pool))],k,0,translate=bool(rs.randint(2))),
         "cutbytype":lambda: CutByType(int(t.type()[0]))(t), "cutorder":lambda: CutByFurcationOrder(rs.randint(1,4))(t), "cutshort":lambda: CutShortTipBranch(float(rs.rand()*6))(t),
         "translate":lambda: Translate(*rs.randn(3))(t), "scale":lambda: Scale(*np.exp(rs.randn(3)))(t), "rotate":lambda: Rotate(np.array([0,.6,.8]),rs.rand()*6)(t), "rotx":lambda: RotateX(rs.rand()*6,center="origin")(t),
         "torigin":lambda: TranslateOrigin()(t), "normalizer":lambda: Normalizer()(t), "radius":lambda: RadiusReseter(1.5)(t), "smooth":lambda: TreeSmoother(rs.choice([1,2,3,5,7]))(t),
         "resample":lambda: IsometricResampler(float(np.exp(rs.uniform(-2,2))))(t), "swc":lambda: Tree.from_swc(io.StringIO(t.to_swc())),
         "compose":lambda: Transforms(Translate(1,0,0),RadiusReseter(2.),CutByFurcationOrder(3))(t),
        }
        name=rs.choice(list(ops)); steps+=1
        try:
            y=ops[name]()
            if len(y)==0: continue
            wf(y)
            if len(y)<=60: pool.append(y)
        except Exception as e:
            errs.setdefault(f"{name}: {type(e).__name__} {str(e)[:70]}",[]).append((t.pid().tolist(),t.type().tolist()[:3]))
print("steps",steps,{k:len(v) for k,v in errs.items()})
for k,v in errs.items(): print(k,v[0])
