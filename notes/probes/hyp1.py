import os, sys, json
from hypothesis import given, settings, seed, strategies as st, Phase, HealthCheck
from hypothesis.stateful import RuleBasedStateMachine, rule, invariant, run_state_machine_as_test, precondition, initialize
SEED=int(os.environ.get("VERIF_SEED","1"))
# (1) capture minimal failing case
last={}
evals=[0]
@seed(SEED)
@settings(max_examples=300, database=None, deadline=None, report_multiple_bugs=False, suppress_health_check=list(HealthCheck))
@given(st.lists(st.integers(0,100),max_size=20))
def t(xs):
    evals[0]+=1
    try:
        assert sum(xs)<150
    except AssertionError:
        last["case"]=list(xs); raise
try: t(); print("no failure")
except AssertionError: print("minimal failing case captured:", last["case"], "evals", evals[0])
# (2) stateful with seed + step log
class M(RuleBasedStateMachine):
    logs=None
    def __init__(self): super().__init__(); self.log=[]; self.v=[]
    @rule(x=st.integers(0,50))
    def push(self,x): self.log.append(("push",x)); self.v.append(x)
    @precondition(lambda self: len(self.v)>0)
    @rule()
    def pop(self): self.log.append(("pop",)); self.v.pop()
    @invariant()
    def inv(self):
        M.logs=list(self.log)
        assert sum(self.v)<120
try:
    run_state_machine_as_test(seed(SEED)(M), settings=settings(max_examples=200, stateful_step_count=30, database=None, deadline=None, report_multiple_bugs=False))
    print("machine: no failure")
except AssertionError: print("machine minimal log:", M.logs)
