from h import *
from swcgeom.transforms import *
from swcgeom.utils import rotate3d, rotate3d_x, rotate3d_y, rotate3d_z
rs=np.random.RandomState(8)
def rod(n,th):
    n=np.asarray(n,float); K=np.array([[0,-n[2],n[1]],[n[2],0,-n[0]],[-n[1],n[0],0]])
    return np.eye(3)+np.sin(th)*K+(1-np.cos(th))*K@K
worst={}
def upd(k,e): worst[k]=max(worst.get(k,0),e)
for trial in range(2000):
    n=rs.randint(1,12); p=[-1]+[rs.randint(0,i) for i in range(1,n)]
    xyz=(rs.randn(n,3)*rs.choice([1,10,300])+rs.randn(3)*rs.choice([0,5,200])).astype(np.float32)
    t=mk(p,xyz=xyz,r=rs.rand(n)+.1,types=rs.randint(0,8,n),tag=np.arange(n,dtype=np.int32))
    X=xyz.astype(float); c0=X[0]; scale=1+np.abs(X).max()
    th=rs.uniform(-2*np.pi,2*np.pi); ax=rs.randn(3); ax/=np.linalg.norm(ax); s=np.exp(rs.uniform(-1.5,1.5,3))*rs.choice([-1,1],3); tv=rs.randn(3)*10
    for center in ("root","origin"):
        c=c0 if center=="root" else np.zeros(3)
        cases={"Scale":(Scale(*s,center=center),c+(X-c)*s),
               "Rotate":(Rotate(ax,th,center=center),c+(X-c)@rod(ax,th).T),
               "RotateX":(RotateX(th,center=center),c+(X-c)@rod([1,0,0],th).T),
               "RotateY":(RotateY(th,center=center),c+(X-c)@rod([0,1,0],th).T),
               "RotateZ":(RotateZ(th,center=center),c+(X-c)@rod([0,0,1],th).T)}
        for name,(tr,want) in cases.items():
            y=tr(t); got=y.xyz().astype(float)
            upd(name+"/"+center, np.abs(got-want).max()/(scale*max(1,np.abs(s).max() if name=="Scale" else 1)))
            assert np.array_equal(y.pid(),t.pid()) and np.array_equal(y.type(),t.type()) and np.array_equal(y.r(),t.r()) and np.array_equal(y.ndata["tag"],t.ndata["tag"])
    y=Translate(*tv)(t); upd("Translate",np.abs(y.xyz()-(X+tv)).max()/scale)
    y=TranslateOrigin()(t); upd("TranslateOrigin",np.abs(y.xyz()-(X-c0)).max()/scale)
    upd("rotate3d", np.abs(rotate3d(ax,th)[:3,:3]-rod(ax,th)).max())
    back=Rotate(ax,-th)(Rotate(ax,th)(t)); upd("inverse rot",np.abs(back.xyz()-X).max()/scale)
    back=Scale(*(1/s))(Scale(*s)(t)); upd("inverse scale",np.abs(back.xyz()-X).max()/scale)
for k,v in worst.items(): print(f"{k:22s} {v:.2e}")
