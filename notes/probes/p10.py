from h import *
from swcgeom.analysis.lmeasure import LMeasure
from swcgeom.analysis import extract_feature, Sholl
from swcgeom.analysis.features import NodeFeatures, BranchFeatures, PathFeatures
rs=np.random.RandomState(13); lm=LMeasure()
def bin_tree(n):
    pids=[-1]; open_=[0]
    while len(pids)<n and open_:
        p=open_.pop(rs.randint(len(open_))); k=rs.choice([1,2,2])
        for _ in range(k): pids.append(p); open_.append(len(pids)-1)
    return pids
def ang(a,b): return np.degrees(np.arccos(np.clip(a@b/np.linalg.norm(a)/np.linalg.norm(b),-1,1)))
errs={}
def rec(k,v): errs.setdefault(k,[]).append(v)
for trial in range(300):
    p=bin_tree(rs.randint(3,25)); n=len(p)
    X32=(rs.randn(n,3)*5).astype(np.float32); X=X32.astype(float); t=mk(p,xyz=X32,r=rs.rand(n)+.1)
    ch=[[] for _ in p]
    for i,q in enumerate(p):
        if q>=0: ch[q].append(i)
    tips=lambda i: 1 if not ch[i] else sum(tips(c) for c in ch[i])
    def branch_end(c):
        while len(ch[c])==1: c=ch[c][0]
        return c
    try:
        # branch order (lmeasure): furcations on path to root inclusive
        for i in range(n):
            j=i; o=0
            while j!=-1: o+=len(ch[j])>1; j=p[j]
            assert lm.branch_order(t.node(i))==o,("branch_order",i)
            assert lm.terminal_degree(t.node(i))==tips(i),("terminal_degree",i)
        for i in range(n):
            if len(ch[i])==2:
                a,b=ch[i]; n1,n2=tips(a),tips(b)
                want=0 if n1==n2 else abs(n1-n2)/(n1+n2-2)
                assert abs(lm.partition_asymmetry(t.node(i))-want)<1e-12,("pa",i)
                v1,v2=X[a]-X[i],X[b]-X[i]
                assert abs(lm.bif_ampl_local(t.node(i))-ang(v1,v2))<1e-2,("ampl_local",i,lm.bif_ampl_local(t.node(i)),ang(v1,v2))
                w1,w2=X[branch_end(a)]-X[i],X[branch_end(b)]-X[i]
                assert abs(lm.bif_ampl_remote(t.node(i))-ang(w1,w2))<1e-2,("ampl_remote",i)
                if p[i]!=-1:
                    v=X[p[i]]-X[i]
                    assert abs(lm.bif_tilt_local(t.node(i))-min(ang(v,v1),ang(v,v2)))<1e-2,("tilt_local",i)
                    assert abs(lm.bif_tilt_remote(t.node(i))-min(ang(v,w1),ang(v,w2)))<1e-2,("tilt_remote",i)
        brs=t.get_branches()
        assert lm.n_branch(t)==len(brs)
        for b in brs:
            ids=b.origin_id().tolist(); L=sum(np.linalg.norm(X[u]-X[v]) for u,v in zip(ids,ids[1:]))
            assert abs(lm.branch_pathlength(b)-L)<1e-4*(1+L); assert lm.fragmentation(b)==len(ids)-1
            assert abs(lm.contraction(b)-np.linalg.norm(X[ids[0]]-X[ids[-1]])/L)<1e-4
        # node branch order (NodeFeatures): depth in branch tree, indexed by branch-tree node
        nf=NodeFeatures(t); bo=nf.get_branch_order(); bt=nf._branch_tree
        crit=[i for i in range(n) if i==0 or len(ch[i])!=1]
        def depth(i):
            d=0
            while i!=0:
                i=p[i]
                while i!=0 and len(ch[i])==1: i=p[i]
                d+=1
            return d
        got=sorted(bo.tolist()); want=sorted(depth(i) for i in crit)
        assert got==want,("node_branch_order",got,want)
    except AssertionError as e: rec(str(e.args[0][0]) if isinstance(e.args[0],tuple) else "assert",(p,e.args))
    except Exception as e: rec(type(e).__name__+str(e)[:40],p)
print({k:len(v) for k,v in errs.items()})
for k,v in errs.items(): print(k,v[0])
