from h import *
import itertools, pandas as pd, signal
from swcgeom.core.swc_utils import is_single_root, is_bifurcate, is_sorted, has_cyclic, read_swc, mark_roots_as_somas, link_roots_to_nearest, reset_index
class TO(Exception): pass
def hh(*a): raise TO()
signal.signal(signal.SIGALRM,hh)
def ref(p):
    n=len(p)
    # connected
    par=list(range(n))
    def f(a):
        while par[a]!=a: a=par[a]
        return a
    for i,q in enumerate(p):
        if q>=0: par[f(i)]=f(q)
    conn=len({f(i) for i in range(n)})==1
    cyc=False
    for i in range(n):
        j=i; k=0
        while p[j]>=0 and k<=n: j=p[j]; k+=1
        if k>n: cyc=True
    srt=all(q<i for i,q in enumerate(p) if q>=0)
    cnt=[0]*n
    for q in p:
        if q>=0: cnt[q]+=1
    bif_all=all(c<=2 for c in cnt); bif_ex=all(c<=2 for i,c in enumerate(cnt) if p[i]!=-1)
    return conn,cyc,srt,bif_all,bif_ex
bad={}; tot=0
for n in range(1,6):
    for p in itertools.product(range(-1,n),repeat=n):
        p=list(p); tot+=1
        topo=(np.arange(n),np.array(p)); df=pd.DataFrame({"id":np.arange(n),"pid":p})
        signal.alarm(5)
        try:
            got=(is_single_root(df),has_cyclic(topo),is_sorted(topo),is_bifurcate(topo,exclude_root=False),is_bifurcate(topo))
        except TO: got="HANG"
        except Exception as e: got="ERR "+type(e).__name__
        finally: signal.alarm(0)
        w=ref(p)
        if got!=w:
            key=tuple(i for i,(a,b) in enumerate(zip(got,w)) if a!=b) if isinstance(got,tuple) else got
            bad.setdefault(key,[]).append((p,got,w))
print("tables",tot,{k:len(v) for k,v in bad.items()})
for k,v in bad.items(): print(k,v[:3])
