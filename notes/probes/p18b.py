from h import *
import pandas as pd
from swcgeom.core.swc_utils import read_swc
rs=np.random.RandomState(5)
bad={}; N=600
for trial in range(N):
    n=rs.randint(2,16); nroots=rs.randint(2,min(n,5)+1)
    # forest: first nroots... choose root positions anywhere
    order=rs.permutation(n); p=[None]*n
    roots=sorted(rs.choice(n,nroots,replace=False).tolist())
    # assign parents among earlier positions in a random order to ensure acyclic: use labels
    lab=rs.permutation(n); inv=np.argsort(lab)
    for i in range(n):
        if i in roots: p[i]=-1
        else:
            cands=[j for j in range(n) if lab[j]<lab[i]]
            if not cands: p[i]=-1; roots.append(i)
            else: p[i]=int(rs.choice(cands))
    roots=sorted(set(roots))
    if len(roots)<2: continue
    first_row_root = (roots[0]==0)
    base=int(rs.choice([0,1,7]))
    xyz=np.round(rs.randn(n,3)*10,3); r=np.round(rs.rand(n)+.1,3); ty=rs.randint(0,8,n)
    txt="".join(f"{i+base} {ty[i]} {xyz[i,0]} {xyz[i,1]} {xyz[i,2]} {r[i]} {p[i]+base if p[i]>=0 else -1}\n" for i in range(n))
    for fix in (False,"somas","nearest"):
        try:
            with warnings.catch_warnings(record=True) as w:
                warnings.simplefilter("always")
                df,_=read_swc(io.StringIO(txt),fix_roots=fix,reset_index=first_row_root)
            msgs=[str(x.message) for x in w]
            assert len(df)==n and (df.id==np.arange(n)-0+ (0 if True else 0)).all() or True
            ids=df.id.to_numpy(); pid=df.pid.to_numpy()
            shift=(roots[0]+base) if first_row_root else 0
            assert (ids==np.arange(n)+base-shift).all(),("ids",ids)
            exp=[(q+base-shift) if q>=0 else None for q in p]
            for i in range(n):
                if exp[i] is not None: assert pid[i]==exp[i],("edge lost",i,pid[i],exp[i])
            assert np.allclose(df.x,xyz[:,0]) and np.allclose(df.r,r) and (df.type==ty).all(),"attrs"
            if fix is False:
                assert all(pid[i]==-1 for i in roots),("root marker",pid[roots])
                assert any("not a simple tree" in m for m in msgs),("no warning",msgs)
            else:
                assert pid[roots[0]]==-1 and sum(pid==-1)==1,("roots after repair",pid[roots])
                # tree: every node reaches first root
                for i in range(n):
                    j=i;k=0
                    while pid[j]!=-1:
                        j=int(np.where(ids==pid[j])[0][0]);k+=1; assert k<=n,"cycle"
                    assert j==roots[0]
        except Exception as e:
            bad.setdefault(f"{fix} {type(e).__name__} {str(e)[:50]}",[]).append((p,base))
print("cases",N,{k:len(v) for k,v in bad.items()})
for k,v in list(bad.items())[:4]: print(k,v[0])
