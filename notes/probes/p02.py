from h import *
from swcgeom.core.swc_utils import read_swc
def rd(txt, **kw):
    try:
        with warnings.catch_warnings(record=True) as w:
            warnings.simplefilter("always")
            df,c = read_swc(io.StringIO(txt), **kw)
        return len(df), df.iloc[:, :].values.tolist()[-1], [str(x.message)[:40] for x in w]
    except Exception as e: return "ERR", type(e).__name__, str(e)[:60]
base="1 1 0 0 0 1 -1\n"
for row in ["2 3 1.5 +2.50 -.5 1e0 1","2 3 5. .5e1 5.E-1 1 1"," \t2\t3  1 1 1\t1 1  ","2 3 1 1 1 1 1 7 8.5","2 3 1 1 1 1 1 1e-3","2 3 1 1 1 1 1 1.5E+2 4","2 3 1 1 1 1 1 -3, 4","002 03 1 1 1 1 01","2 3 1 1 1 1 +1","2 3 1 1 1 1 1\r","2 3 1 1 1 1 1 abc"]:
    print(repr(row), "->", rd(base+row+"\n"))
print("requested extras exp:", rd(base.replace("-1","-1 2e1")+"2 3 1 1 1 1 1 1.5E+2\n", extra_cols=["a"]))
