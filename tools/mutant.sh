#!/bin/sh
# usage: tools/mutant.sh <name> <property> [check args...]   (patch read from stdin: unified diff OR "FILE\n<<<<\nold\n====\nnew\n>>>>" blocks)
# Creates a scratch worktree of /repo HEAD, applies the edit, runs the repo tests and the property's quick check
# against it (VERIF_REPO), prints a verdict, removes the worktree.
name=$1; prop=$2; shift 2
wt=/tmp/verif-mutants/$name
rm -rf "$wt"; git -C /repo worktree prune
git -C /repo worktree add -q --detach "$wt" HEAD || exit 2
cat > "$wt/.edit"
/venv/bin/python /verif/tools/apply_edit.py "$wt" "$wt/.edit" || { echo "EDIT FAILED"; git -C /repo worktree remove --force "$wt"; exit 2; }
rm -f "$wt/.edit"
( cd "$wt" && /venv/bin/python -m pytest -q -p no:cacheprovider --timeout=900 -x 2>&1 | tail -1 )
out=/tmp/verif-mutants/out-$name; mkdir -p "$out"
( cd /verif && VERIF_REPO="$wt" VERIF_OUT="$out" /venv/bin/python check.py "$prop" --tier quick "$@" 2>&1 | grep -E "^VIOLATION|signature|^\[|HARNESS|GAP" | head -12 )
echo "exit=$?"
git -C /repo worktree remove --force "$wt"; rm -rf "$out"
