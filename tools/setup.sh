#!/bin/sh
# Offline setup: hypothesis beside the repository's packages (if missing), atheris into /verif/.deps
set -e
cd "$(dirname "$0")/.."
/venv/bin/python -c "import hypothesis" 2>/dev/null || \
  /venv/bin/pip install -q --no-index --find-links /opt/veriftools/wheels hypothesis
mkdir -p .deps
PYTHONPATH=.deps /venv/bin/python -c "import atheris" 2>/dev/null || \
  /venv/bin/pip install -q --no-index --find-links /opt/veriftools/wheels --target .deps atheris || \
  echo "atheris not installable: thorough-tier fuzz campaigns will be reported as unavailable"
/venv/bin/python -c "import hypothesis, numpy, swcgeom; print('setup ok: hypothesis', hypothesis.__version__)"
