#!/bin/sh
# usage: tools/sweep_keep.sh <tier> <seed>...   like sweep.sh, but keeps every run's evidence and log under
# /tmp/sweepev/seed<k>/ (for tools/margins.py); committed evidence is untouched.
tier=$1; shift
cd "$(dirname "$0")/.."
for seed in "$@"; do
  out=/tmp/sweepev/seed$seed; mkdir -p $out
  for p in C01 C02 C03 C04 C05 C06 C07 C08 C09 C10 C11 C12 C13 C14 C15 C16 C17 C18 C19 C20; do
    s=$(date +%s)
    VERIF_OUT=$out VERIF_SEED=$seed /venv/bin/python check.py $p --tier $tier > $out/$p.log 2>&1; rc=$?
    e=$(date +%s)
    echo "$p seed=$seed rc=$rc $((e-s))s $(grep -E '^\[' $out/$p.log | sed 's/.*evaluations/evaluations/')"
    [ $rc -ne 0 ] && grep -E "VIOLATION|signature|message|HARNESS|GAP" $out/$p.log | head -8
  done
done
