#!/venv/bin/python
"""usage: tools/seed_recheck.py [--tier quick] [--jobs 4] [--workers 4] [--only C03-a2,...] [--missed]

Re-runs the current checks against every confirmed seeded change (each in its own scratch worktree of /repo HEAD with
the patch applied, imported through VERIF_REPO, scratch VERIF_OUT) and appends the outcome to seeded/<id>/meta.json.
`--missed` restricts the run to the changes whose last recorded run did not detect them.
"""
import argparse
import glob
import json
import os
import shutil
import subprocess
import sys
import time
from concurrent.futures import ThreadPoolExecutor

PY = "/venv/bin/python"
FAST = False
DIR = "seeded"
HERE = os.path.dirname(os.path.dirname(os.path.abspath(__file__)))


def sh(cmd, **kw):
    return subprocess.run(cmd, shell=isinstance(cmd, str), capture_output=True, text=True, **kw)


def one(name, tier, workers, seed, commit):
    d = os.path.join(HERE, DIR, name)
    meta = json.load(open(os.path.join(d, "meta.json"), encoding="utf-8"))
    prop = meta.get("breaks_property") or name.split("-")[0]
    wt = f"/tmp/verif-mutants/recheck-{DIR}-{name}-{os.getpid()}"
    out = wt + "-out"
    r = sh(f"git -C /repo worktree add -q --detach {wt} HEAD")
    if r.returncode:
        return name, None, "worktree: " + r.stderr
    try:
        r = sh(f"git -C {wt} apply {os.path.join(d, 'patch.diff')}")
        if r.returncode:
            return name, None, "patch does not apply: " + r.stderr.strip()
        os.makedirs(out, exist_ok=True)
        t0 = time.time()
        r = sh([PY, "check.py", prop, "--tier", tier, "--workers", str(workers)], cwd=HERE,
               env=dict(os.environ, VERIF_REPO=wt, VERIF_OUT=out, VERIF_SEED=str(seed), **({"VERIF_FAST_FAIL": "1"} if FAST else {})))
        run = {"cmd": f"VERIF_REPO=<patched worktree> VERIF_SEED={seed} check.py {prop} --tier {tier}",
               "rc": r.returncode, "wall_s": round(time.time() - t0, 1),
               "signatures": [l.strip() for l in r.stdout.splitlines() if "signature:" in l][:8],
               "verif_commit": commit, "detected": r.returncode == 1}
        if r.returncode == 2:
            run["stderr"] = r.stderr[-800:]
        meta.setdefault("check_runs", []).append(run)
        json.dump(meta, open(os.path.join(d, "meta.json"), "w", encoding="utf-8"), indent=1)
        return name, run, None
    finally:
        sh(f"git -C /repo worktree remove --force {wt}")
        shutil.rmtree(out, ignore_errors=True)
        shutil.rmtree(wt, ignore_errors=True)


def main():
    ap = argparse.ArgumentParser()
    ap.add_argument("--tier", default="quick")
    ap.add_argument("--jobs", type=int, default=4)
    ap.add_argument("--workers", type=int, default=4)
    ap.add_argument("--seed", default="1")
    ap.add_argument("--only")
    ap.add_argument("--missed", action="store_true")
    ap.add_argument("--dir", default="seeded", help="seeded (expect rc 1) or neutral (expect rc 0)")
    ap.add_argument("--fast", action="store_true", help="detection only: no shrinking, stop at the first failure")
    a = ap.parse_args()
    global FAST, DIR
    FAST = a.fast
    DIR = a.dir
    names = sorted(os.path.basename(os.path.dirname(p)) for p in glob.glob(os.path.join(HERE, DIR, "*", "meta.json")))
    if a.only:
        want = set(a.only.split(","))
        names = [n for n in names if n in want or n.split("-")[0] in want]
    if a.missed:
        keep = []
        for n in names:
            m = json.load(open(os.path.join(HERE, DIR, n, "meta.json"), encoding="utf-8"))
            runs = m.get("check_runs", [])
            if not runs or not runs[-1].get("detected"):
                keep.append(n)
        names = keep
    sh("git -C /repo worktree prune")
    commit = sh("git -C /verif rev-parse --short HEAD").stdout.strip()
    if sh("git -C /verif status --porcelain -- props vlib check.py").stdout.strip():
        commit += "+"
    missed = []
    with ThreadPoolExecutor(a.jobs) as ex:
        for name, run, err in ex.map(lambda n: one(n, a.tier, a.workers, a.seed, commit), names):
            if err:
                print(f"{name}: ERROR {err}", flush=True)
                continue
            print(f"{name}: rc={run['rc']} {run['wall_s']}s {'; '.join(run['signatures'][:2])[:200]}", flush=True)
            if run["rc"] != (0 if DIR == "neutral" else 1):
                missed.append(name)
                if run["rc"] == 2:
                    print("   stderr:", run.get("stderr", "")[-400:].replace("\n", " | "), flush=True)
    if DIR == "neutral":
        print(f"{len(names)} run, {len(names) - len(missed)} quiet; ALARMS: {' '.join(missed)}")
    else:
        print(f"{len(names)} run, {len(names) - len(missed)} detected; missed: {' '.join(missed)}")


if __name__ == "__main__":
    sys.exit(main())
