#!/venv/bin/python
"""usage: tools/margins.py [evidence-dir ...]   lists required classes whose observed count is < 2x the required minimum
(thin margins turn into COVERAGE-GAP harness errors at another seed)."""
import importlib
import json
import os
import sys

HERE = os.path.dirname(os.path.dirname(os.path.abspath(__file__)))
sys.path[:0] = ["/repo", HERE]
dirs = sys.argv[1:] or [os.path.join(HERE, "evidence")]
for i in range(1, 21):
    pid = f"C{i:02d}"
    mod = importlib.import_module(f"props.c{i:02d}")
    for sub in mod.SUBCHECKS:
        req = getattr(sub, "required", None) or {}
        for d in dirs:
            f = os.path.join(d, f"{pid}.json")
            if not os.path.exists(f):
                continue
            e = json.load(open(f))
            if e.get("tier") != "quick":
                continue
            got = e["coverage"]["subchecks"].get(sub.name, {}).get("classes", {})
            for k, v in req.items():
                c = got.get(k, 0)
                if c < 2 * v:
                    print(f"{pid} {sub.name}: {k!r} observed {c} required {v} (seed {e.get('seed')}, {d})")
