#!/bin/sh
# usage: tools/mut.sh <name> <property> <kind> <arg> [check args...]
#   kind = revert <commit>   : scratch worktree of /repo HEAD with <commit> reverted
#          patch  <file>     : ... with a unified diff or apply_edit block file applied
# Runs the repo test-suite and the property's quick check against the worktree (VERIF_REPO), prints the
# verdict, copies new replays to /tmp/verif-mutants/replays-<name>/ and removes the worktree.
name=$1; prop=$2; kind=$3; arg=$4; shift 4
wt=/tmp/verif-mutants/$name
rm -rf "$wt"; git -C /repo worktree prune
git -C /repo worktree add -q --detach "$wt" HEAD || exit 2
case $kind in
  revert) git -C "$wt" revert -n "$arg" >/dev/null 2>&1 || { echo "REVERT FAILED"; git -C /repo worktree remove --force "$wt"; exit 2; } ;;
  patch) /venv/bin/python /verif/tools/apply_edit.py "$wt" "$arg" || { echo "EDIT FAILED"; git -C /repo worktree remove --force "$wt"; exit 2; } ;;
esac
if [ -z "$SKIP_TESTS" ]; then
( cd "$wt" && /venv/bin/python -m pytest -q -p no:cacheprovider --timeout=900 -x 2>&1 | tail -1 )
fi
out=/tmp/verif-mutants/out-$name; rm -rf "$out"; mkdir -p "$out"
( cd /verif && VERIF_REPO="$wt" VERIF_OUT="$out" /venv/bin/python check.py "$prop" --tier ${TIER:-quick} "$@" 2>&1 | grep -E "^VIOLATION|signature|message|^\[|HARNESS|GAP" | head -${LINES_MAX:-14} )
rm -rf /tmp/verif-mutants/replays-$name
[ -d "$out/replays" ] && cp -r "$out/replays" /tmp/verif-mutants/replays-$name
git -C /repo worktree remove --force "$wt"; rm -rf "$out"
