#!/bin/sh
# usage: tools/seed_eval.sh <patch.diff> <demo.py> <property> [tier]
# Confirms a seeded change in a scratch worktree of /repo HEAD (outside /repo and /verif): the patch applies, the
# repository's own tests still pass, the demonstration fails with it and passes without it; then runs the property's
# check against the patched tree.  Prints one RESULT line; removes the worktree.
patch=$1; demo=$2; prop=$3; tier=${4:-quick}
name=seed-$$
wt=/tmp/verif-mutants/$name
git -C /repo worktree prune
git -C /repo worktree add -q --detach "$wt" HEAD || exit 2
( cd "$wt" && PYTHONPATH="$wt" /venv/bin/python "$demo" >/dev/null 2>&1 ); clean=$?
if ! git -C "$wt" apply "$patch" 2>/dev/null; then echo "RESULT patch-does-not-apply"; git -C /repo worktree remove --force "$wt"; exit 2; fi
tests=$( cd "$wt" && /venv/bin/python -m pytest -q -p no:cacheprovider --timeout=900 2>&1 | tail -1 )
( cd "$wt" && PYTHONPATH="$wt" /venv/bin/python "$demo" >/dev/null 2>&1 ); seeded=$?
out=/tmp/verif-mutants/out-$name; rm -rf "$out"; mkdir -p "$out"
s=$(date +%s)
( cd /verif && VERIF_REPO="$wt" VERIF_OUT="$out" /venv/bin/python check.py "$prop" --tier $tier > "$out/log" 2>&1 ); rc=$?
e=$(date +%s)
echo "RESULT prop=$prop tier=$tier demo_clean=$clean demo_seeded=$seeded tests='$tests' check_rc=$rc wall=$((e-s))s"
grep -E "signature|message" "$out/log" | head -6
git -C /repo worktree remove --force "$wt"; rm -rf "$out"
