#!/bin/sh
# usage: tools/sweep.sh <tier> <seed>...   runs every registered check at each seed into a scratch output dir
# (VERIF_OUT, so committed evidence is untouched) and prints one line per run plus anything that needs attention.
tier=$1; shift
out=$(mktemp -d /tmp/verif-sweep.XXXXXX)
for seed in "$@"; do
  for p in C01 C02 C03 C04 C05 C06 C07 C08 C09 C10 C11 C12 C13 C14 C15 C16 C17 C18 C19 C20; do
    s=$(date +%s)
    VERIF_OUT=$out VERIF_SEED=$seed /venv/bin/python check.py $p --tier $tier > $out/log 2>&1; rc=$?
    e=$(date +%s)
    echo "$p seed=$seed rc=$rc $((e-s))s $(grep -E '^\[' $out/log | sed 's/.*evaluations/evaluations/')"
    [ $rc -ne 0 ] && grep -E "VIOLATION|signature|message|HARNESS|GAP" $out/log | head -8
  done
done
rm -rf $out
