#!/venv/bin/python
"""Regenerates MANIFEST.json from the registry below (keeps it valid at all times)."""
import json, os, sys
HERE = os.path.dirname(os.path.dirname(os.path.abspath(__file__)))
sys.path.insert(0, HERE)
from tools.registry import CHECKS, NOT_APPLICABLE  # noqa

PY = "/venv/bin/python"
manifest = {
    "version": 1,
    "setup_cmd": "cd /verif && sh tools/setup.sh",
    "hooks": {
        "guard": "SWCGEOM_VERIF",
        "enable": "no hooks are needed: every observation point is public API; checks import /repo's working tree directly",
        "baseline_off_cmd": "cd /repo && /venv/bin/python -m pytest -ra -q -p no:cacheprovider --timeout=900 --continue-on-collection-errors",
        "source_commits": [],
        "add_only": True,
    },
    "engines": [
        {"name": "hypothesis", "path": "/verif/vlib/harness.py",
         "serves_properties": [c["id"] for c in CHECKS],
         "kind_free_text": "Hypothesis 6.168 @given + RuleBasedStateMachine, seeded from VERIF_SEED, sharded over processes; explicit reference-model / round-trip / metamorphic oracles; shrunk failures saved as JSON replays"},
        {"name": "atheris", "path": "/verif/vlib/fuzz_driver.py", "serves_properties": ["C02", "C15"],
         "kind_free_text": "Atheris 3.1 / libFuzzer (installed offline into /verif/.deps by setup_cmd), thorough tier only: structured targets drive the Hypothesis strategies through fuzz_one_input, raw targets mutate document bytes over a small alphabet against an independent reference reader; violations are collected (smallest case per signature) and written as the same JSON replays; engine timeouts / crashes are replayed by the parent under the watchdog"},
    ],
    "checks": [],
    "notes": "One CLI (check.py) for all properties. VERIF_REPO / VERIF_OUT redirect the tree under test and the output directory (used for mutant runs). KNOWN_FINDINGS.txt lists fixed and open findings.",
    "not_applicable": NOT_APPLICABLE,
}
for c in CHECKS:
    manifest["checks"].append({
        "property_id": c["id"],
        "quick_cmd": f"cd /verif && {PY} check.py {c['id']} --tier quick",
        "thorough_cmd": f"cd /verif && {PY} check.py {c['id']} --tier thorough",
        "evidence_file": f"/verif/evidence/{c['id']}.json",
        "replay_cmd_template": f"cd /verif && {PY} check.py {c['id']} --replay {{path}}",
        "engine": "hypothesis",
        "level_claimed": {"category": "exploration", "text": c["text"], "design_ref": c["ref"]},
        "level_note": c["note"],
        "technique": c["technique"],
    })
json.dump(manifest, open(os.path.join(HERE, "MANIFEST.json"), "w"), indent=1)
try:
    import jsonschema  # noqa
    jsonschema.validate(manifest, json.load(open("/root/.vp/MANIFEST.schema.json")))
except ImportError:
    print("(jsonschema not importable here: validate with python3-vt)")
print("MANIFEST.json written:", len(manifest["checks"]), "checks,", len(NOT_APPLICABLE), "not applicable")
