"""Applies search/replace blocks:  @@ path   then  <<<<\nold\n====\nnew\n>>>>  (old must occur exactly once)."""
import sys, os, re
root, edit = sys.argv[1], open(sys.argv[2]).read()
if edit.lstrip().startswith(("diff ", "--- ")):
    import subprocess
    sys.exit(subprocess.run(["git", "-C", root, "apply", sys.argv[2]]).returncode)
cur = None
for m in re.finditer(r"@@ (\S+)\n|<<<<\n(.*?)\n====\n(.*?)\n>>>>", edit, re.S):
    if m.group(1):
        cur = os.path.join(root, m.group(1)); continue
    old, new = m.group(2), m.group(3)
    s = open(cur).read()
    if s.count(old) != 1:
        print(f"pattern occurs {s.count(old)} times in {cur}: {old!r}"); sys.exit(1)
    open(cur, "w").write(s.replace(old, new))
