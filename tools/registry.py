"""Which properties are claimed (a check is registered only once it is quiet on the unchanged tree)."""
def _c(id, text, note, technique):
    return {"id": id, "text": text, "ref": f"DESIGN.md section 3 {id}", "note": note, "technique": technique}


CHECKS = [
    _c("C04",
       "Generated-input search over tree shapes x numberings x start nodes x callback modes x entry points with recording callbacks; oracle derived from parent pointers (exactly-once, parent's value passed down, children's values passed up as a multiset, visit set = subtree, return value). Depth handled by 10^4-10^5-node chains and by lowering the recursion limit around 3000-deep traversals. Exploration, not proof.",
       "Trusted: the reference subtree/children computation in vlib/models.py; sibling visiting order is unspecified.",
       "property-based testing (Hypothesis): recording callbacks vs parent-pointer reference model; recursion-limit probe"),
    _c("C05",
       "Generated-input search over trees with extra columns under permuted numberings, as Tree / DataFrame (arbitrary distinct ids, root anywhere) / SWC text; oracle = tag-based bijection preserving parent relation and all columns, pid < id, purity of sort_nodes vs in-place sort_nodes_, re-sorting stays a relabelling. Exploration, not proof.",
       "Trusted: unique tag column identifies nodes across renumbering.",
       "property-based testing (Hypothesis): relabelling-invariance oracle through unique tags"),
    {"id": "C02",
     "text": "Generated-input search: SWC texts assembled from the line grammar with exactly known rational values, read through every source kind/encoding/option; oracle = the generator's own table (exact equality) for valid texts, 'must raise' for texts with injected malformed lines or an undecodable byte, tag-based isomorphism for sort_nodes. No counterexample among the generated cases; this is exploration, not proof.",
     "ref": "DESIGN.md section 3 C02",
     "note": "Trusted: Python's Fraction->float conversion as the numeric reference; the generator's grammar is the definition of 'SWC line grammar' (ids/types unsigned, pid -1 or unsigned).",
     "technique": "property-based testing (Hypothesis): grammar-based generation + exact reference table / must-raise oracle"},
]
CLAIMED = {c["id"] for c in CHECKS}
NOT_APPLICABLE = [
    {"property_id": f"C{i:02d}", "reason": "check under construction in this session; not yet registered (see DESIGN.md section 8 build order)"}
    for i in range(1, 21) if f"C{i:02d}" not in CLAIMED
]
