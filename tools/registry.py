"""Which properties are claimed (a check is registered only once it is quiet on the unchanged tree)."""
CHECKS = [
    {"id": "C02",
     "text": "Generated-input search: SWC texts assembled from the line grammar with exactly known rational values, read through every source kind/encoding/option; oracle = the generator's own table (exact equality) for valid texts, 'must raise' for texts with injected malformed lines or an undecodable byte, tag-based isomorphism for sort_nodes. No counterexample among the generated cases; this is exploration, not proof.",
     "ref": "DESIGN.md section 3 C02",
     "note": "Trusted: Python's Fraction->float conversion as the numeric reference; the generator's grammar is the definition of 'SWC line grammar' (ids/types unsigned, pid -1 or unsigned).",
     "technique": "property-based testing (Hypothesis): grammar-based generation + exact reference table / must-raise oracle"},
]
CLAIMED = {c["id"] for c in CHECKS}
NOT_APPLICABLE = [
    {"property_id": f"C{i:02d}", "reason": "check under construction in this session; not yet registered (see DESIGN.md section 8 build order)"}
    for i in range(1, 21) if f"C{i:02d}" not in CLAIMED
]
