"""Which properties are claimed (a check is registered only once it is quiet on the unchanged tree)."""
def _c(id, text, note, technique):
    return {"id": id, "text": text, "ref": f"DESIGN.md section 3 {id}", "note": note, "technique": technique}


CHECKS = [
    _c("C01",
       "Generated-input search over well-formed trees (all shape classes, full finite float32 range, types 0-255), id offsets, source/comment settings and source kinds; oracle = write->read round trip with the four-decimal rounding recomputed by the decimal module, exact comment list, file/string agreement, independent row split of the written text, second round trip as fixed point. Exploration, not proof.",
       "Trusted: decimal.quantize (precision 80) as the rounding reference; comment text without line breaks and not starting with the column header.",
       "property-based testing (Hypothesis): round-trip oracle with independent decimal rounding reference"),
    _c("C04",
       "Generated-input search over tree shapes x numberings x start nodes x callback modes x entry points with recording callbacks; oracle derived from parent pointers (exactly-once, parent's value passed down, children's values passed up as a multiset, visit set = subtree, return value). Depth handled by 10^4-10^5-node chains and by lowering the recursion limit around 3000-deep traversals. Exploration, not proof.",
       "Trusted: the reference subtree/children computation in vlib/models.py; sibling visiting order is unspecified.",
       "property-based testing (Hypothesis): recording callbacks vs parent-pointer reference model; recursion-limit probe"),
    _c("C05",
       "Generated-input search over trees with extra columns under permuted numberings, as Tree / DataFrame (arbitrary distinct ids, root anywhere) / SWC text; oracle = tag-based bijection preserving parent relation and all columns, pid < id, purity of sort_nodes vs in-place sort_nodes_, re-sorting stays a relabelling. Exploration, not proof.",
       "Trusted: unique tag column identifies nodes across renumbering.",
       "property-based testing (Hypothesis): relabelling-invariance oracle through unique tags"),
    _c("C06",
       "Generated-input search over tagged trees x 13 extraction/pruning operations with generated arguments (start nodes, removal multisets, per-node decision tables, types, orders, thresholds derived from the tree); oracle = survivor set from the parent-pointer reference model, compared through tags, with per-survivor attributes, parent relation and new->old mapping. Exploration, not proof.",
       "Trusted: reference model in props/c06.py + vlib/models.py; a threshold within 1e-4 of a branch length is accepted either way.",
       "property-based testing (Hypothesis): reference-model oracle over survivor sets"),
    _c("C07",
       "Generated-input search over tagged lattice trees, new-root / junction choices, sort and translate modes, differing column sets; oracle = tag-based node set, columns, undirected and directed edges, root-type exchange, exact translation, junction merge, well-formed sorted result; plus PathToTree / PathReverser. Exploration, not proof.",
       "Trusted: lattice coordinates make float32 translation exact; junctions are exactly coincident or >= 1/8 apart.",
       "property-based testing (Hypothesis): structural reference model through unique tags, exact-arithmetic lattice"),
    _c("C08",
       "Generated-input search over trees with forced corner shapes (single node, unbranched chain, root degree 1/2/3+) and permuted numbering; oracle = reference decomposition from parent pointers for tips, furcations, branches (as id-tuple sets), paths, Node.branch, BranchTree nodes/edges/remembered points, ToLongestPath. Exploration, not proof.",
       "Trusted: reference decomposition in vlib/models.py; list order unspecified.",
       "property-based testing (Hypothesis): reference-model oracle for the branch decomposition"),
    _c("C18",
       "Stateful model check of DisjointSetUnion against a naive partition (all pairs after every step); every parent table on <= 5 (quick) / <= 6 (thorough) nodes exhaustively plus generated tables up to 40 nodes incl. self loops, cycles, forests and shuffled rows, each checker call under a watchdog, against parent-pointer definitions; generated multi-root forest files (id base 0/1/k, roots in any rows) through read_swc(fix_roots=off|somas|nearest) and the DataFrame repair functions. Exhaustive on the small tables, exploration beyond.",
       "Trusted: the naive partition / parent-pointer reference in props/c18.py; ids 0..n-1 for has_cyclic (DSU addresses elements by id); re-basing only when the first row is a root.",
       "property-based testing (Hypothesis stateful + exhaustive small-domain enumeration): reference-model oracle"),
    _c("C12",
       "Generated-input search over trees (root moved away from the origin, root at any row, up to 300/2000 nodes) x Translate / TranslateOrigin / Scale / Rotate / RotateX/Y/Z / generic invertible AffineTransform x centre mode x instance/classmethod form; oracle = float64 reference map c + M(x-c) + b (Rodrigues, right-handed), fixed centre, pairwise distances under rotation, inverse restores, id/pid/type/r/extras bit-identical, input untouched; matrix builders against reference 4x4 matrices and quarter-turn handedness. Exploration, not proof.",
       "Trusted: numpy float64 linear algebra as the reference; tolerance 1e-4 relative to the coordinate scale (float32 storage); rotation axes are unit vectors.",
       "property-based testing (Hypothesis): float64 reference-model oracle + inverse/metamorphic relations"),
    _c("C13",
       "Generated-input search over radii / heights / distances log-uniform in [0.02, 50] with constructed tangent, nested, concentric, equal-radius, cylinder, h = r, cone-inside-sphere and needle configurations, any axis direction and centre offset, sphere on either end of the frustum; oracle = exact piecewise-cubic revolution integral of min / max squared-radius profiles (no case analysis shared with the code) for sphere, cap, frustum, sphere-sphere and sphere-frustum intersection and union. Exploration, not proof.",
       "Trusted: float64 quadrature-free integration in vlib/models.py (breakpoints from quadratic roots); tolerance 1e-5*V + 1e-5*L^2 covering the library's absolute eps = 1e-6.",
       "property-based testing (Hypothesis): independent exact reference (solid-of-revolution integral)"),
    _c("C14",
       "Generated-input search over collinear trees (chains; roots with two opposite arms) with spacings from exactly max(r) upward so that about half of the neighbouring sphere pairs overlap, any direction and offset, accuracy levels 3-9 and the named levels, plus arbitrary trees at levels 1 and 2; oracle = exact revolution integral of the union profile of all spheres and frusta along the line, all analytic levels agree, extract_feature('volume') equals it; levels 1 / 2 against float64 sums. Exploration, not proof.",
       "Trusted: the revolution-integral reference (vlib/models.py); rtol 1e-4 for the library's float32 arithmetic; Monte-Carlo level 10 excluded.",
       "property-based testing (Hypothesis): independent exact reference (solid-of-revolution integral) + cross-level agreement"),
    _c("C10",
       "Generated-input search over trees of every shape class (coincident points, zero-length segments, soma and non-soma roots), Sholl radii (fractions of rmax, gap midpoints, exact node distances, integer step grids), binary trees in general position, populations of 1-5 trees; oracle = float64 textbook definitions computed by parent-pointer walks (length, branch/path length, straight-line distance, tortuosity, radial distance, branch order, counts, straddle count, L-Measure stems/bifurcations/branches/tips/path and Euclidean distance/branch order/terminal degree/partition asymmetry/fragmentation/contraction/bifurcation amplitude and tilt), front end compared with the feature classes (single/list/dict forms), population rows zero-padded. Exploration, not proof.",
       "Trusted: reference definitions in props/c10.py + vlib/models.py; tolerances for float32 library arithmetic; angles compared through cosines; LMeasure.branch_order counts furcations on the root path inclusively (library definition).",
       "property-based testing (Hypothesis): reference-model oracle from definitions + differential front-end/feature-class comparison"),
    {"id": "C02",
     "text": "Generated-input search: SWC texts assembled from the line grammar with exactly known rational values, read through every source kind/encoding/option; oracle = the generator's own table (exact equality) for valid texts, 'must raise' for texts with injected malformed lines or an undecodable byte, tag-based isomorphism for sort_nodes. No counterexample among the generated cases; this is exploration, not proof.",
     "ref": "DESIGN.md section 3 C02",
     "note": "Trusted: Python's Fraction->float conversion as the numeric reference; the generator's grammar is the definition of 'SWC line grammar' (ids/types unsigned, pid -1 or unsigned).",
     "technique": "property-based testing (Hypothesis): grammar-based generation + exact reference table / must-raise oracle"},
]
CLAIMED = {c["id"] for c in CHECKS}
NOT_APPLICABLE = [
    {"property_id": f"C{i:02d}", "reason": "check under construction in this session; not yet registered (see DESIGN.md section 8 build order)"}
    for i in range(1, 21) if f"C{i:02d}" not in CLAIMED
]
