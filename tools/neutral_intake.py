#!/venv/bin/python
"""usage: tools/neutral_intake.py <property> <name> <srcdir> [--tier quick|thorough] [--no-store]

Confirms a property-PRESERVING change (srcdir holds patch.diff, demo.py, meta.json: a behaviour-visible change under
which the property still holds, written by an independent sub-agent) in a scratch worktree of /repo HEAD outside /repo
and /verif: the patch applies, the repository's 81 tests still pass with it, the demonstration of the behaviour
difference exits 0 without it and non-zero with it.  Then runs the property's check against the patched worktree
(VERIF_REPO) with a scratch VERIF_OUT: the check must stay quiet (exit 0); exit 1 is a false-alarm candidate to be
judged by hand.  A confirmed change is stored as /verif/neutral/<property>-<name>/ with the outcome in meta.json.
The worktree and all output are removed at the end.
"""
import argparse
import json
import os
import shutil
import subprocess
import sys
import time

PY = "/venv/bin/python"


def sh(cmd, **kw):
    return subprocess.run(cmd, shell=isinstance(cmd, str), capture_output=True, text=True, **kw)


def main():
    ap = argparse.ArgumentParser()
    ap.add_argument("prop")
    ap.add_argument("name")
    ap.add_argument("src")
    ap.add_argument("--tier", default="quick")
    ap.add_argument("--no-store", action="store_true")
    ap.add_argument("--seed", default="1")
    a = ap.parse_args()
    src = os.path.abspath(a.src)
    patch, demo = os.path.join(src, "patch.diff"), os.path.join(src, "demo.py")
    wt = f"/tmp/verif-mutants/nintake-{a.prop}-{a.name}-{os.getpid()}"
    out = wt + "-out"
    sh("git -C /repo worktree prune")
    r = sh(f"git -C /repo worktree add -q --detach {wt} HEAD")
    if r.returncode:
        print("cannot create worktree:", r.stderr)
        return 2
    env = dict(os.environ, PYTHONPATH=wt, PYTHONHASHSEED="0")
    res = {}
    try:
        # demo scripts written by sub-agents may assert their own worktree path: rewrite it to ours
        demo_txt = open(demo, encoding="utf-8").read()
        import re

        demo_txt = re.sub(r"/tmp/seedwt/[A-Za-z0-9_]+", wt, demo_txt)
        if os.path.abspath(src).startswith("/verif/neutral/"):
            demo_txt = demo_txt.replace('"/repo"', f'"{wt}"').replace("'/repo'", f"'{wt}'")
        demo_local = os.path.join(wt, "_seed_demo.py")
        open(demo_local, "w", encoding="utf-8").write(demo_txt)
        r = sh([PY, demo_local], cwd=wt, env=env, timeout=600)
        res["demo_clean_rc"] = r.returncode
        r = sh(f"git -C {wt} apply {patch}")
        if r.returncode:
            print("RESULT patch does not apply:", r.stderr.strip())
            return 2
        r = sh(f"cd {wt} && {PY} -m pytest -q -p no:cacheprovider --timeout=900 2>&1 | tail -1")
        res["tests"] = r.stdout.strip()
        r = sh([PY, demo_local], cwd=wt, env=env, timeout=600)
        res["demo_seeded_rc"] = r.returncode
        res["demo_seeded_out"] = (r.stdout + r.stderr)[-400:]
        os.remove(demo_local)
        confirmed = res["demo_clean_rc"] == 0 and res["demo_seeded_rc"] != 0 and "81 passed" in res["tests"] \
            and "failed" not in res["tests"]
        res["confirmed"] = confirmed
        os.makedirs(out, exist_ok=True)
        t0 = time.time()
        r = sh([PY, "check.py", a.prop, "--tier", a.tier], cwd="/verif",
               env=dict(os.environ, VERIF_REPO=wt, VERIF_OUT=out, VERIF_SEED=a.seed))
        res["check"] = {"cmd": f"VERIF_REPO=<patched worktree> VERIF_SEED={a.seed} check.py {a.prop} --tier {a.tier}",
                        "rc": r.returncode, "wall_s": round(time.time() - t0, 1),
                        "signatures": [l.strip() for l in r.stdout.splitlines() if "signature:" in l or "message:" in l][:12]}
        if r.returncode == 2:
            res["check"]["stderr"] = r.stderr[-800:]
        print("RESULT", json.dumps(res, indent=1))
        if confirmed and not a.no_store:
            dst = f"/verif/neutral/{a.prop}-{a.name}"
            os.makedirs(dst, exist_ok=True)
            if os.path.abspath(src) != os.path.abspath(dst):
                shutil.copy(patch, os.path.join(dst, "patch.diff"))
                open(os.path.join(dst, "demo.py"), "w", encoding="utf-8").write(
                    re.sub(r"/tmp/seedwt/[A-Za-z0-9_]+", "/repo", open(demo, encoding="utf-8").read()))
            meta = {}
            mp = os.path.join(src, "meta.json")
            if os.path.exists(mp):
                try:
                    meta = json.load(open(mp, encoding="utf-8"))
                except Exception:  # noqa
                    meta = {"raw": open(mp, encoding="utf-8").read()}
            old = {}
            if os.path.exists(os.path.join(dst, "meta.json")):
                old = json.load(open(os.path.join(dst, "meta.json"), encoding="utf-8"))
            meta["preserves_property"] = a.prop
            meta["author"] = "independent sub-agent given only the property text and a scratch worktree"
            meta["confirmation"] = {
                "how": "scratch worktree of /repo HEAD: demo on clean tree, git apply patch.diff, repository tests, demo again",
                "demo_rc_clean": res["demo_clean_rc"], "demo_rc_seeded": res["demo_seeded_rc"], "tests": res["tests"]}
            runs = old.get("check_runs", [])
            runs.append(dict(res["check"], verif_commit=sh("git -C /verif rev-parse --short HEAD").stdout.strip(),
                             quiet=res["check"]["rc"] == 0))
            meta["check_runs"] = runs
            json.dump(meta, open(os.path.join(dst, "meta.json"), "w", encoding="utf-8"), indent=1)
        return 0
    finally:
        sh(f"git -C /repo worktree remove --force {wt}")
        shutil.rmtree(out, ignore_errors=True)
        shutil.rmtree(wt, ignore_errors=True)


if __name__ == "__main__":
    sys.exit(main())
