#!/usr/bin/env python3
"""Writes neutral/README.md: one row per confirmed property-preserving change with the outcome of every check run against it."""
import glob
import json
import os

HERE = os.path.dirname(os.path.dirname(os.path.abspath(__file__)))
rows = []
for mp in sorted(glob.glob(os.path.join(HERE, "neutral", "*", "meta.json"))):
    m = json.load(open(mp, encoding="utf-8"))
    name = os.path.basename(os.path.dirname(mp))
    runs = m.get("check_runs", [])
    first, last = (runs[0], runs[-1]) if runs else ({}, {})
    rows.append((name, m.get("file", ""), m.get("function", ""), m.get("kind", ""),
                 (m.get("summary") or "")[:240].replace("|", "/").replace("\n", " "),
                 "quiet" if first.get("quiet") else "ALARM", "quiet" if last.get("quiet") else "ALARM", last.get("verif_commit", "")))
out = ["# Property-preserving changes (false-alarm probes)", "",
       "Each directory holds `patch.diff` (applies to /repo HEAD), `demo.py` (shows the behaviour difference: exit 0 on the unchanged tree,",
       "1 with the patch) and `meta.json` (what changed, why the property still holds, every check run against it). All were written by",
       "independent sub-agents that saw only the property text and a scratch worktree; all keep the 81 repository tests green. The",
       "property's check must stay quiet on each of them; an alarm here is a defect of the check and was corrected (DESIGN.md section 7).", "",
       "| change | file :: function | kind | what a caller can observe | check when first run | check now | at /verif commit |",
       "|---|---|---|---|---|---|---|"]
for r in rows:
    out.append(f"| {r[0]} | {r[1]} :: {r[2]} | {r[3]} | {r[4]} | {r[5]} | {r[6]} | {r[7]} |")
n = len(rows)
out += ["", f"{n} confirmed changes; {sum(1 for r in rows if r[5] == 'quiet')} left the check quiet when first run, "
            f"{sum(1 for r in rows if r[6] == 'quiet')} leave the current checks quiet."]
open(os.path.join(HERE, "neutral", "README.md"), "w", encoding="utf-8").write("\n".join(out) + "\n")
print(out[-1])
