#!/usr/bin/env python3
"""Writes seeded/README.md: one row per confirmed seeded change with the outcome of the last check run against it."""
import glob
import json
import os

HERE = os.path.dirname(os.path.dirname(os.path.abspath(__file__)))
rows = []
for mp in sorted(glob.glob(os.path.join(HERE, "seeded", "*", "meta.json"))):
    m = json.load(open(mp, encoding="utf-8"))
    name = os.path.basename(os.path.dirname(mp))
    runs = m.get("check_runs", [])
    first, last = (runs[0], runs[-1]) if runs else ({}, {})
    sigs = "; ".join(s.replace("signature: ", "") for s in last.get("signatures", [])[:2])
    rows.append((name, m.get("file", ""), m.get("function", ""), (m.get("needs") or "")[:220].replace("|", "/").replace("\n", " "),
                 "yes" if first.get("detected") else "no", "yes" if last.get("detected") else "NO",
                 last.get("verif_commit", ""), sigs.replace("|", "/")))
out = ["# Seeded breaking changes", "",
       "Each directory holds `patch.diff` (applies to /repo HEAD with `git apply`), `demo.py` (exit 0 on the unchanged tree, 1 with the",
       "patch) and `meta.json` (author's description, how it was confirmed, every check run against it). All were written by",
       "independent sub-agents that saw only the property text and a scratch worktree; all keep the 81 repository tests green.", "",
       "| change | file :: function | needs | caught when first run | caught now | at /verif commit | signature(s) |",
       "|---|---|---|---|---|---|---|"]
for r in rows:
    out.append(f"| {r[0]} | {r[1]} :: {r[2]} | {r[3]} | {r[4]} | {r[5]} | {r[6]} | {r[7]} |")
n = len(rows)
first = sum(1 for r in rows if r[4] == "yes")
now = sum(1 for r in rows if r[5] == "yes")
out += ["", f"{n} confirmed changes; {first} caught by the quick check as it stood when the change arrived, {now} caught by the current quick checks."]
open(os.path.join(HERE, "seeded", "README.md"), "w", encoding="utf-8").write("\n".join(out) + "\n")
print(out[-1])
