#!/bin/sh
# usage: tools/seed_intake_batch.sh <round-suffix> <jobs>   e.g.  r3 4
# Confirms every /tmp/seedwt/<PROP><suffix>/out/c<k>/ through tools/${INTAKE:-seed_intake.py} (stored as seeded/<PROP>-c<k>), <jobs> at a time.
suffix=$1; jobs=${2:-4}
cd "$(dirname "$0")/.."
mkdir -p /tmp/verif-mutants /tmp/${INTAKE:-seed_intake.py}-logs
ls -d /tmp/seedwt/*${suffix}/out/c* /tmp/seedwt/*${suffix}/out/extra_c* 2>/dev/null | while read d; do
  prop=$(echo "$d" | sed "s#/tmp/seedwt/\(C[0-9]*\)${suffix}/out/.*#\1#")
  name=$(basename "$d" | sed 's/extra_//')
  echo "$prop $name $d"
done | xargs -P "$jobs" -L 1 sh -c '/venv/bin/python tools/${INTAKE:-seed_intake.py} $0 $1 $2 > /tmp/${INTAKE:-seed_intake.py}-logs/$0-$1.log 2>&1; echo "$0-$1 $(grep -o "\"confirmed\": [a-z]*" /tmp/${INTAKE:-seed_intake.py}-logs/$0-$1.log) check_rc=$(grep -A3 "\"check\"" /tmp/${INTAKE:-seed_intake.py}-logs/$0-$1.log | grep -o "\"rc\": [0-9]*" | head -1)"'
