#!/bin/sh
# usage: [INTAKE=neutral_intake.py] tools/seed_intake_batch.sh <round-suffix> <jobs> [<letter>]   e.g.  r4 5 d
# Confirms every /tmp/seedwt/<PROP><suffix>/out/c<k>/ through tools/$INTAKE (default seed_intake.py), <jobs> at a time; the
# change is stored as <PROP>-<letter><k> (default letter: c).
suffix=$1; jobs=${2:-4}; letter=${3:-c}
cd "$(dirname "$0")/.."
tool=${INTAKE:-seed_intake.py}
mkdir -p /tmp/verif-mutants /tmp/$tool-logs
ls -d /tmp/seedwt/*${suffix}/out/c[0-9] /tmp/seedwt/*${suffix}/out/extra_c[0-9] 2>/dev/null | while read d; do
  prop=$(echo "$d" | sed "s#/tmp/seedwt/\(C[0-9]*\)${suffix}/out/.*#\1#")
  name=$(basename "$d" | sed "s/extra_//; s/^c/${letter}/")
  echo "$prop $name $d $tool"
done | xargs -P "$jobs" -L 1 sh -c '/venv/bin/python tools/$3 $0 $1 $2 > /tmp/$3-logs/$0-$1.log 2>&1; echo "$0-$1 $(grep -o "\"confirmed\": [a-z]*" /tmp/$3-logs/$0-$1.log) check_rc=$(grep -A3 "\"check\"" /tmp/$3-logs/$0-$1.log | grep -o "\"rc\": [0-9]*" | head -1)"'
