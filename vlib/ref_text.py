"""Independent reference readers for raw SWC / ASC text (used by the byte-level fuzz targets).

Both are three-valued: a text is *grammatical* (then the expected table is known), *definitely malformed* in one of the
ways the property statements name (then the library must raise), or neither (*ambiguous*: nothing is asserted).
Nothing here shares code with the library's parsers or with the grammar generators.
"""
import re
from fractions import Fraction

NUM = re.compile(r"[+-]?(?:\d+\.?\d*|\.\d+)(?:[eE][+-]?\d+)?\Z")
UINT = re.compile(r"\d+\Z")
PID = re.compile(r"-?\d+\Z")


def frac(tok: str) -> Fraction:
    m = re.match(r"([+-]?)(\d*)\.?(\d*)(?:[eE]([+-]?\d+))?\Z", tok)
    sign, a, b, e = m.group(1), m.group(2), m.group(3), m.group(4)
    v = Fraction(int((a + b) or "0"), 10 ** len(b))
    if e:
        v *= Fraction(10) ** int(e)
    return -v if sign == "-" else v


def in_range(tok: str) -> bool:
    """Spellings whose value a double holds without overflow / underflow games (the properties speak of finite
    coordinates): at most 40 digits and a decimal exponent within +-60."""
    m = re.match(r"[+-]?(\d*)\.?(\d*)(?:[eE]([+-]?\d+))?\Z", tok)
    return bool(m) and len(m.group(1) + m.group(2)) <= 40 and (m.group(3) is None or (len(m.group(3)) <= 4 and abs(int(m.group(3))) <= 60))


def to_float(tok: str) -> float:
    fr = frac(tok)
    return fr.numerator / fr.denominator  # correctly rounded


def _floatable(tok: str) -> bool:
    try:
        float(tok)
        return True
    except ValueError:
        return False


# ----------------------------------------------------------------------------- byte <-> text through a small alphabet
class Alphabet:
    """Maps every byte to one entry of a small list of strings, so that any byte string is a text over exactly the
    characters both the library and the reference agree on (no exotic whitespace, no unicode digits, no '_')."""

    def __init__(self, entries):
        self.entries = list(entries)
        self._by_len = sorted(range(len(self.entries)), key=lambda i: -len(self.entries[i]))

    def decode(self, data: bytes) -> str:
        n = len(self.entries)
        return "".join(self.entries[b % n] for b in data)

    def encode(self, text: str) -> bytes:
        out, i = bytearray(), 0
        while i < len(text):
            for k in self._by_len:
                e = self.entries[k]
                if text.startswith(e, i):
                    out.append(k)
                    i += len(e)
                    break
            else:
                i += 1  # a character outside the alphabet is dropped
        return bytes(out)


SWC_ALPHABET = Alphabet(list("0123456789") + [".", "+", "-", "e", "E", " ", "\t", "\n", "\r\n", "#", "x", "-1", " 0 ", " 1 ", "  "])
ASC_ALPHABET = Alphabet(list("0123456789") + [".", "+", "-", "e", "E", " ", "\t", "\n", "(", ")", "|", ";", "Axon", "Dendrite",
                                                 "Color", "Red", "x", "(Axon)", "(Dendrite)", " 0 ", " 1.5 "])


# ----------------------------------------------------------------------------- SWC
def swc_reference(text: str):
    """Returns (verdict, rows, comments): verdict in {"table", "malformed", "ambiguous"}; rows are
    (id, type, x, y, z, r, pid) with floats correctly rounded from the decimal spelling."""
    rows, comments = [], []
    malformed = ambiguous = False
    lines = text.split("\n")
    if lines and lines[-1] == "":
        lines.pop()
    for line in lines:
        if line.endswith("\r"):
            line = line[:-1]
        body = line.strip(" \t")
        if body == "":
            if line.strip() != "":
                ambiguous = True
            continue
        if body.startswith("#"):
            comments.append(body[1:])
            continue
        f = body.split()
        if re.search(r"[^ \t0-9.+\-eEx#]", body):
            ambiguous = True  # characters outside the alphabet's row material
        if len(f) < 7:
            malformed = True
            continue
        head = f[:7]
        if any(not _floatable(t) or "x" in t or "#" in t for t in head):
            malformed = True  # a token no number reading accepts
            continue
        if not (UINT.match(head[0]) and UINT.match(head[1]) and all(NUM.match(t) for t in head[2:6]) and PID.match(head[6])):
            ambiguous = True  # numeric, but not in the spelling the column takes (1.5 as an id, +3 as a type, ...)
            continue
        if any(not NUM.match(t) for t in f[7:]):
            ambiguous = True  # trailing fields that are not numbers: the statement does not say
            continue
        if not all(in_range(t) for t in head[2:6]) or len(head[0]) > 9 or len(head[1]) > 9 or len(head[6]) > 9:
            ambiguous = True  # values beyond what int32 / a finite double hold
            continue
        rows.append((int(head[0]), int(head[1]), to_float(head[2]), to_float(head[3]), to_float(head[4]), to_float(head[5]),
                     int(head[6])))
    if malformed:
        return "malformed", rows, comments
    if ambiguous:
        return "ambiguous", rows, comments
    return "table", rows, comments


def swc_table_is_closed(rows) -> bool:
    ids = [r[0] for r in rows]
    s = set(ids)
    return len(rows) > 0 and len(s) == len(ids) and all(r[6] == -1 or (r[6] in s and r[6] != r[0]) for r in rows) \
        and sum(1 for r in rows if r[6] == -1) >= 1


# ----------------------------------------------------------------------------- ASC
class _Amb(Exception):
    pass


class _Eof(Exception):
    """Tokens ran out while everything read so far was grammatical: the text is a proper prefix of a document."""


class _BadPoint(Exception):
    """Everything before was grammatical and a point group does not consist of exactly four numbers."""


CMT = ";"


def asc_tokens(text: str):
    """Tokens with each comment (';' to the end of the line) kept as one CMT token."""
    toks = []
    for line in text.split("\n"):
        k = line.find(";")
        rest = line if k < 0 else line[:k]
        toks.extend(re.findall(r"[()|]|[^\s()|]+", rest))
        if k >= 0:
            toks.append(CMT)
    return toks


def _comments_allowed(toks):
    """Comments are part of the supported grammar only between two structural tokens of the tree body (after the first
    point has opened): never inside a point or a colour marker, nor before the first point."""
    labels = [i for i, t in enumerate(toks) if t.upper() in ("AXON", "DENDRITE")]
    if not labels:
        return False
    k = labels[0] + 2
    struct = ("(", ")", "|", CMT)
    for i, t in enumerate(toks):
        if t != CMT:
            continue
        if i <= k or toks[i - 1] not in struct or (i + 1 < len(toks) and toks[i + 1] not in struct):
            return False
    return True


def asc_reference(text: str):
    """Returns (verdict, table, label): verdict in {"table", "malformed", "ambiguous"}; table rows are
    (x, y, z, r, parent index) with float32-rounded values; label 'AXON' / 'DENDRITE'."""
    import numpy as np

    if re.search(r"[^ \t\n()|;0-9.+\-eEA-Za-z]", text):
        return "ambiguous", None, None
    toks = asc_tokens(text)
    if CMT in toks:
        if not _comments_allowed(toks):
            return "ambiguous", None, None
        toks = [t for t in toks if t != CMT]
    if not toks or toks[0] != "(":
        return "ambiguous", None, None
    # extent of the top-level expression
    depth, end = 0, None
    for i, t in enumerate(toks):
        if t == "(":
            depth += 1
        elif t == ")":
            depth -= 1
            if depth == 0:
                end = i
                break
    unbalanced = end is None
    body = toks if unbalanced else toks[: end + 1]
    trailing = (not unbalanced) and end + 1 < len(toks)
    # malformed point groups: '(' NUMBER ... up to the next bracket must be exactly four numbers and then ')'
    bad_point = False
    i = 0
    while i < len(body):
        if body[i] == "(" and i + 1 < len(body) and NUM.match(body[i + 1]):
            j = i + 1
            group = []
            while j < len(body) and body[j] not in ("(", ")", "|"):
                group.append(body[j])
                j += 1
            closed = j < len(body) and body[j] == ")"
            if closed and (len(group) != 4 or not all(NUM.match(g) for g in group)):
                bad_point = True
            i = j
        else:
            i += 1
    pos = [0]

    def peek():
        return body[pos[0]] if pos[0] < len(body) else None

    def take(expect=None):
        t = peek()
        if t is None:
            raise _Eof()
        if expect is not None and t != expect:
            raise _Amb()
        pos[0] += 1
        return t

    table = []

    def marker():  # '(' already seen and next is Color
        take("(")
        if take().upper() != "COLOR":
            raise _Amb()
        w = take()
        if not re.match(r"[A-Za-z]+\Z", w):
            raise _Amb()  # a colour is a name; anything else (RGB triples, digits) is outside the supported subset
        take(")")

    def point(parent):
        take("(")
        group = []
        while peek() not in ("(", ")", "|", None):
            group.append(take())
        if peek() is None:
            raise _Eof()
        if peek() != ")" or len(group) != 4 or not all(NUM.match(g) for g in group):
            raise _BadPoint()
        if not all(in_range(g) for g in group):
            raise _Amb()
        vals = [float(np.float32(to_float(t))) for t in group]
        take(")")
        table.append((vals[0], vals[1], vals[2], vals[3], parent))
        return len(table) - 1

    def branch(parent):
        cur = point(parent)
        while True:
            t = peek()
            if t != "(":
                return
            nxt = body[pos[0] + 1] if pos[0] + 1 < len(body) else None
            if nxt is None:
                raise _Eof()
            if NUM.match(nxt):
                cur = point(cur)
            elif nxt.upper() == "COLOR":
                marker()
            else:  # a split: '(' alt ('|' alt)* ')', each alt empty or a branch; it ends this branch
                take("(")
                first = True
                while True:
                    t = peek()
                    if t == "(":
                        n2 = body[pos[0] + 1] if pos[0] + 1 < len(body) else None
                        if n2 is None:
                            raise _Eof()
                        if not NUM.match(n2):
                            raise _Amb()  # an alternative starts with a point
                        branch(cur)
                        t = peek()
                    if t == "|":
                        take("|")
                        first = False
                        continue
                    if t == ")":
                        if first and body[pos[0] - 1] == "(":
                            raise _Amb()  # '( )'
                        take(")")
                        return
                    raise _Amb()

    verdict = "ambiguous"
    label = None
    try:
        take("(")
        while peek() == "(" and pos[0] + 1 < len(body) and body[pos[0] + 1].upper() == "COLOR":
            marker()
        take("(")
        label = take().upper()
        if label not in ("AXON", "DENDRITE"):
            raise _Amb()
        take(")")
        if peek() == "(" and pos[0] + 1 < len(body) and not NUM.match(body[pos[0] + 1]):
            raise _Amb()  # the tree body starts with a point
        branch(-1)
        take(")")
        if pos[0] != len(body) or trailing or unbalanced:
            raise _Amb()
        verdict = "table"
    except _Amb:
        verdict = "ambiguous"
    except _Eof:
        # a proper prefix of a grammatical document (only if nothing follows the part that was read)
        verdict = "malformed" if unbalanced else "ambiguous"
    except _BadPoint:
        verdict = "malformed" if not trailing else "ambiguous"
    if verdict == "table":
        return "table", table, label
    return verdict, None, None
