"""Neurolucida ASC grammar (the supported single-tree subset): case AST -> (document text, expected node table).

A case is JSON:
  {"label": "Axon", "colors_before": ["Red"], "branch": BR, "ws": <int seed for the whitespace choices>}
  BR   = {"items": [ITEM, ...], "split": [ALT, ...] | null}        first item is always a point
  ITEM = {"p": [sx, sy, sz, sr]} | {"color": "Red"} | {"comment": "text"}   (numbers as spelled strings "text=n/d")
       | {"long": [seed, count]}                                    a run of `count` generated points
       | {"annot": [seed, count]}                                   `count` generated points, each followed by a long comment
  ALT  = null (an empty alternative) | BR
  BR may also be {"spine": [seed, depth, where]}: a generated spine of splits nested `depth` levels deep (hundreds to
  thousands), expanded by expand() to the plain form; `where` = first | middle | last | mixed says in which alternative of
  each three-way split the nesting continues (the other two are a single point or empty).
The text and the expected table are pure functions of the case (render()).
"""
from fractions import Fraction

import numpy as np
from hypothesis import strategies as st

from vlib import gen_swc

COLORS = ["Red", "Blue", "Green", "RGB", "Yellow", "DarkCyan"]
LABELS = ["Axon", "Dendrite", "AXON", "DENDRITE", "axon", "dendrite", "AxOn"]
COMMENT_TEXT = st.text(alphabet=st.sampled_from(list(" abcXYZ019().|;,+-eE\t#\"'")), max_size=12)


@st.composite
def spelled(draw, positive=False):
    text, val, _ = draw(gen_swc.spelled_float(positive=positive, big=False))
    return f"{text}={val.numerator}/{val.denominator}"


def spell_value(s):
    text, frac = s.rsplit("=", 1)
    n, d = frac.split("/")
    return text, Fraction(int(n), int(d))


@st.composite
def point(draw):
    return {"p": [draw(spelled()), draw(spelled()), draw(spelled()), draw(spelled(positive=True))]}


@st.composite
def branch(draw, depth, max_points, max_alts):
    items = [draw(point())]
    k = draw(st.integers(0, max_points - 1))
    for _ in range(k):
        r = draw(st.integers(0, 9))
        if r == 0:
            items.append({"color": draw(st.sampled_from(COLORS))})
        elif r == 1:
            items.append({"comment": draw(COMMENT_TEXT)})
        else:
            items.append(draw(point()))
    split = None
    if depth > 0 and draw(st.integers(0, 9)) < 6:
        nalt = draw(st.integers(1, max_alts))
        split = []
        for _ in range(nalt):
            if nalt > 1 and draw(st.integers(0, 4)) == 0:
                split.append(None)
            else:
                split.append(draw(branch(depth - 1, max_points, max_alts)))
        # "( )" is not an s-expression the format produces: a one-alternative split is never empty
    return {"items": items, "split": split}


@st.composite
def deep_branch(draw, depth, where):
    """A spine nested `depth` levels deep; `where` says in which alternative the nesting continues."""
    b = {"items": [draw(point())], "split": None}
    for lvl in range(depth):
        pos = {"first": 0, "last": 2, "middle": 1}[where] if where != "mixed" else draw(st.integers(0, 2))
        alts = [None if draw(st.integers(0, 3)) == 0 else {"items": [draw(point())], "split": None} for _ in range(3)]
        alts[pos] = b
        b = {"items": [draw(point())], "split": alts}
    return b


@st.composite
def document(draw, tier):
    mode = draw(st.integers(0, 19))
    if mode == 2:
        # a long, heavily annotated tracing: tens of kilobytes of text in which comments sit at every kind of offset
        # (readers that work through the text in blocks meet comments across their block boundaries)
        m = draw(st.integers(40, 90 if tier == "quick" else 400))
        items = [draw(point())]
        long_text = st.text(alphabet=st.sampled_from(list(" abcXYZ019().|;,+-eE")), min_size=30, max_size=90)
        for _ in range(m):
            items.append({"long": [draw(st.integers(0, 2 ** 31 - 1)), draw(st.integers(2, 9))]})
            items.append({"comment": draw(long_text)})
        br = {"items": items, "split": [draw(branch(1, 3, 2)), None] if draw(st.booleans()) else None}
    elif mode == 4:
        # a tracing of 100-400 KB in which most of the text is comments: whatever block size a reader uses, comments lie
        # across its block borders
        count = draw(st.integers(700, 1200 if tier == "quick" else 3000))
        br = {"items": [draw(point()), {"annot": [draw(st.integers(0, 2 ** 31 - 1)), count]}],
              "split": [draw(branch(1, 3, 2)), None] if draw(st.booleans()) else None}
    elif mode == 3:
        # splits nested hundreds to thousands of levels deep ("at any nesting depth"): far beyond what an interpreter's
        # default recursion limit lets a reader recurse through
        br = {"spine": [draw(st.integers(0, 2 ** 31 - 1)), draw(st.sampled_from([300, 600, 900, 1200, 2500, 6000])),
                        draw(st.sampled_from(["first", "last", "middle", "mixed"]))]}
    elif mode == 0:
        depth = draw(st.integers(8, 12 if tier == "quick" else 150))
        br = draw(deep_branch(depth, draw(st.sampled_from(["first", "last", "middle", "mixed"]))))
    elif mode == 1:
        count = draw(st.integers(1000, 1500 if tier == "quick" else 5000))
        br = {"items": [draw(point()), {"long": [draw(st.integers(0, 2 ** 31 - 1)), count]}],
              "split": [draw(branch(1, 3, 2)), None] if draw(st.booleans()) else None}
    else:
        depth = draw(st.integers(0, 4 if tier == "quick" else 6))
        br = draw(branch(depth, 4 if tier == "quick" else 50, 4))
    doc = {"label": draw(st.sampled_from(LABELS)),
           "colors_before": draw(st.lists(st.sampled_from(COLORS), max_size=2)),
           "branch": br, "ws": draw(st.integers(0, 2 ** 31 - 1))}
    if draw(st.integers(0, 2)) == 0:
        # comments between any two tokens of the tree body (after a split's '(', around '|', before a ')', ...),
        # not only after a point: [gap selector, text]
        doc["gap_comments"] = [[draw(st.integers(0, 10 ** 6)), draw(COMMENT_TEXT)]
                               for _ in range(draw(st.integers(1, 4)))]
    return doc


# ----------------------------------------------------------------------------- rendering
class _deep_recursion:
    """The harness's own walks over a case are recursive; documents nested thousands of levels deep need a higher
    interpreter limit while *the harness* renders them.  The limit is restored before the library is called."""

    def __enter__(self):
        import sys

        self.old = sys.getrecursionlimit()
        sys.setrecursionlimit(max(self.old, 200000))

    def __exit__(self, *a):
        import sys

        sys.setrecursionlimit(self.old)


def _spine(seed, depth, where):
    rs = np.random.RandomState(seed % (2 ** 32))

    def pt():
        v = rs.randint(-2000, 2000, size=4)
        r = abs(int(v[3])) + 1
        return {"p": [f"{int(a) / 100:.2f}={int(a)}/100" for a in v[:3]] + [f"{r / 100:.2f}={r}/100"]}

    b = {"items": [pt()], "split": None}
    for _ in range(depth):
        pos = {"first": 0, "last": 2, "middle": 1}[where] if where != "mixed" else int(rs.randint(0, 3))
        alts = [None if rs.randint(0, 4) == 0 else {"items": [pt()], "split": None} for _ in range(3)]
        alts[pos] = b
        b = {"items": [pt()], "split": alts}
    return b


def expand(case):
    br = case["branch"]
    if "spine" in br:
        case = dict(case, branch=_spine(*br["spine"]))
    return case


def _long_points(seed, count):
    rs = np.random.RandomState(seed)
    vals = rs.randint(-20000, 20000, size=(count, 4))
    out = []
    for row in vals:
        toks = []
        for k, v in enumerate(row):
            v = abs(int(v)) + 1 if k == 3 else int(v)
            toks.append((f"{v / 100:.2f}", Fraction(v, 100)))
        out.append(toks)
    return out


def tokens_and_table(case, strip_decor=False):
    """Returns (tokens, nodes).  tokens: list of (kind, text) with kind in
    '(' ')' '|' 'num' 'word' 'comment';  nodes: list of (x, y, z, r, parent) as Fractions + int."""
    toks, nodes = [], []
    case = expand(case)

    def emit_point(vals, parent):
        toks.append(("(", "("))
        fr = []
        for text, f in vals:
            toks.append(("num", text))
            fr.append(f)
        toks.append((")", ")"))
        nodes.append((fr[0], fr[1], fr[2], fr[3], parent))
        return len(nodes) - 1

    def emit_branch(b, parent):
        cur = parent
        for it in b["items"]:
            if "p" in it:
                cur = emit_point([spell_value(s) for s in it["p"]], cur)
            elif "long" in it:
                for vals in _long_points(*it["long"]):
                    cur = emit_point(vals, cur)
            elif "annot" in it:
                rs = np.random.RandomState(it["annot"][0] % (2 ** 32))
                alphabet = list(" abcXYZ019().|;,+-eE")
                for vals in _long_points(*it["annot"]):
                    cur = emit_point(vals, cur)
                    text = "".join(alphabet[j] for j in rs.randint(0, len(alphabet), size=int(rs.randint(60, 100))))
                    if not strip_decor:
                        toks.append(("comment", ";" + text + "\n"))
            elif "color" in it:
                if not strip_decor:
                    toks.extend([("(", "("), ("word", "Color"), ("word", it["color"]), (")", ")")])
            elif "comment" in it:
                if not strip_decor:
                    toks.append(("comment", ";" + it["comment"] + "\n"))
        if b["split"] is not None:
            toks.append(("(", "("))
            for k, alt in enumerate(b["split"]):
                if k > 0:
                    toks.append(("|", "|"))
                if alt is not None:
                    emit_branch(alt, cur)
            toks.append((")", ")"))

    toks.append(("(", "("))
    if not strip_decor:
        for c in case["colors_before"]:
            toks.extend([("(", "("), ("word", "Color"), ("word", c), (")", ")")])
    toks.extend([("(", "("), ("word", case["label"]), (")", ")")])
    body_start = len(toks) + 1  # first gap inside the body: after the first point's '('... see gap_positions
    with _deep_recursion():
        emit_branch(case["branch"], -1)
    toks.append((")", ")"))
    if not strip_decor and case.get("gap_comments"):
        toks = insert_gap_comments(toks, body_start, case["gap_comments"])
    return toks, nodes


STRUCT = ("(", ")", "|", "comment")


def gap_positions(toks, body_start):
    """Gaps (index g = before token g) of the tree body where the supported grammar allows a comment: between two
    structural tokens (brackets, '|', comments), i.e. never inside a point or a colour marker, and not before the
    first point of the tree (the label must be followed by a point)."""
    out = []
    for g in range(body_start, len(toks)):
        if toks[g - 1][0] in STRUCT and toks[g][0] in STRUCT:
            # '(' followed by a word / number starts a colour marker / point: kinds exclude those gaps already
            out.append(g)
    return out


def insert_gap_comments(toks, body_start, gap_comments):
    toks = list(toks)
    for sel, text in gap_comments:
        gaps = gap_positions(toks, body_start)
        if not gaps:
            break
        g = gaps[sel % len(gaps)]
        toks.insert(g, ("comment", ";" + text + "\n"))
    return toks


WS = [" ", "\n", "\t", "  ", " \n ", "\n\n", " \t "]


def join_tokens(toks, seed, upto=None):
    """Deterministic whitespace: arbitrary runs of space/tab/newline, none where the lexer needs none."""
    state = (seed * 2654435761 + 12345) % (2 ** 32)
    out = []
    prev = None
    for k, (kind, text) in enumerate(toks if upto is None else toks[:upto]):
        state = (state * 1103515245 + 12345) % (2 ** 31)
        choice = (state >> 8) % (len(WS) + 3)
        need = prev in ("num", "word") and kind in ("num", "word")
        if prev is None:
            sep = "" if choice % 2 else WS[choice % len(WS)]
        elif prev == "comment":
            sep = "" if choice % 2 else WS[choice % len(WS)]
        elif choice >= len(WS):
            sep = " " if need else ""
        else:
            sep = WS[choice]
        out.append(sep + text)
        prev = kind
    return "".join(out)


def expected_table(nodes):
    f32 = lambda fr: float(np.float32(float(fr)))  # noqa
    return [(f32(x), f32(y), f32(z), f32(r), p) for (x, y, z, r, p) in nodes]


def stats(case):
    """(max nesting depth, number of points, has empty non-final alt, has material after an inner split,
    longest run of points in one branch)."""
    out = {"depth": 0, "empty_nonfinal": False, "empty_first": False, "after_inner_split": False, "longest": 0,
           "all_empty_but_one": False}

    def walk(b, depth):
        out["depth"] = max(out["depth"], depth)
        npts = sum(1 if "p" in it else it["long"][1] if "long" in it else it["annot"][1] if "annot" in it else 0 for it in b["items"])
        out["longest"] = max(out["longest"], npts)
        if b["split"] is not None:
            alts = b["split"]
            for k, a in enumerate(alts):
                if a is None:
                    if k < len(alts) - 1:
                        out["empty_nonfinal"] = True
                    if k == 0:
                        out["empty_first"] = True
                else:
                    if a["split"] is not None and k < len(alts) - 1:
                        out["after_inner_split"] = True
                    walk(a, depth + 1)

    with _deep_recursion():
        walk(expand(case)["branch"], 0)
    return out
