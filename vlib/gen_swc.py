"""SWC text grammar: numbers whose exact value is known, rows, noise lines, malformed lines.

Every number is drawn as digits + point position + power of ten (so its exact rational
value is known without consulting any parser) and then *spelled* in one of the ways
the format allows.  Values are carried in cases as "n/d" strings.
"""
from fractions import Fraction

from hypothesis import strategies as st

DIGITS = "0123456789"
BLANK = st.sampled_from([" ", "\t", "  ", " \t", "   "])
SEP = st.sampled_from([" ", " ", " ", "\t", "  ", " \t ", "\t\t", "    "])


def frac_str(fr: Fraction) -> str:
    return f"{fr.numerator}/{fr.denominator}"


def frac_of(s: str) -> Fraction:
    n, d = s.split("/")
    return Fraction(int(n), int(d))


@st.composite
def spelled_float(draw, value_digits=None, positive=False, big=True):
    """Returns (text, Fraction, features)."""
    feats = []
    if value_digits is None:
        if draw(st.integers(0, 11)) == 0:
            # a value written out with far more digits than a float carries (what '%.25e' / '%.30f' or a decimal
            # library prints): 18-34 significant digits
            D = draw(st.text(DIGITS, min_size=18, max_size=34))
            feats.append("long-spelling")
        else:
            D = draw(st.text(DIGITS, min_size=1, max_size=7))
        q = draw(st.integers(0, len(D)))
        E = draw(st.sampled_from([0, 0, 0, 0, 1, -1, 2, -3, 5, -7, 12, -12, 25, -30])) if big else 0
    else:  # an exact integer value, spelled freely
        D, q, E = str(value_digits), len(str(value_digits)), 0
    neg = False if positive else draw(st.booleans())
    val = Fraction(int(D)) * Fraction(10) ** (q - len(D) + E)
    if neg:
        val = -val
    # spelling: move the point by s places and compensate in the exponent
    s = draw(st.integers(-3, 3)) if draw(st.booleans()) else 0
    q2 = min(max(q - s, 0), len(D))
    s = q - q2
    ip, fp = D[:q2], D[q2:]
    exp10 = s + E
    if ip == "" and draw(st.booleans()):
        ip = "0"
    elif ip == "":
        feats.append("no-int-part")
    if ip and draw(st.integers(0, 5)) == 0:
        pad = draw(st.sampled_from([1, 1, 2, 2, 1, 2, 20, 28]))  # zero-padded fixed-width fields
        ip = "0" * pad + ip
        feats.append("leading-zeros")
        if pad >= 20:
            feats.append("long-spelling")
    if fp:
        body = ip + "." + fp
        if draw(st.integers(0, 4)) == 0:
            pad = draw(st.sampled_from([1, 2, 3, 1, 2, 3, 22, 30]))
            body += "0" * pad
            feats.append("trailing-zeros")
            if pad >= 20:
                feats.append("long-spelling")
    else:
        k = draw(st.integers(0, 3))
        if k == 0:
            body = ip + "."
            feats.append("trailing-dot")
        elif k == 1:
            body = ip + "." + "0" * draw(st.integers(1, 3))
        else:
            body = ip
    if exp10 != 0 or draw(st.integers(0, 7)) == 0:
        e = draw(st.sampled_from("eE"))
        sg = "-" if exp10 < 0 else draw(st.sampled_from(["", "+"]))
        digs = str(abs(exp10))
        if draw(st.integers(0, 4)) == 0:
            digs = "0" + digs
        body += e + sg + digs
        feats.append("exponent")
    if neg:
        body = "-" + body
    elif draw(st.integers(0, 4)) == 0:
        body = "+" + body
        feats.append("plus-sign")
    return body, val, feats


@st.composite
def spelled_uint(draw, value):
    s = str(value)
    if draw(st.integers(0, 6)) == 0:
        return "0" * draw(st.integers(1, 2)) + s, ["leading-zeros"]
    return s, []


def comment_text():
    alpha = st.characters(codec="ascii", min_codepoint=32, max_codepoint=126)
    return st.text(alpha, max_size=20).filter(lambda s: "id type" not in s)


@st.composite
def noise_line(draw, unicode_ok=False):
    """A blank or comment line: (text_without_newline, comment_or_None)."""
    k = draw(st.integers(0, 3))
    if k == 0:
        return draw(st.sampled_from(["", " ", "\t", "  \t "])), None
    lead = draw(st.sampled_from(["", "", " ", "\t ", "   "]))
    body = draw(comment_text())
    if unicode_ok and draw(st.integers(0, 3)) == 0:
        body += draw(st.sampled_from(["é", "神経", "µm", "ß"]))
    return lead + "#" + body, body


@st.composite
def parent_table(draw, n):
    """parents[i] < i for i > 0; parents[0] = -1."""
    mode = draw(st.sampled_from(["uniform", "chain", "star", "binary"]))
    parents = [-1]
    nchild = [0]
    for i in range(1, n):
        if mode == "chain":
            p = i - 1 if draw(st.integers(0, 5)) else draw(st.integers(0, i - 1))
        elif mode == "star":
            p = 0 if draw(st.integers(0, 3)) else draw(st.integers(0, i - 1))
        elif mode == "binary":
            cands = [j for j in range(i) if nchild[j] < 2]
            p = cands[draw(st.integers(0, len(cands) - 1))]
        else:
            p = draw(st.integers(0, i - 1))
        parents.append(p)
        nchild[p] += 1
        nchild.append(0)
    return parents


@st.composite
def swc_document(draw, max_rows=25, family="default", allow_unrequested=True, unicode_ok=False):
    """Builds a valid SWC text plus the table it describes.

    family 'default': ids consecutive from a base, root first, parents before children.
    family 'raw'    : arbitrary distinct ids in arbitrary row order (closed table).
    In family 'raw' x holds the node index exactly (a unique tag).
    """
    n = draw(st.integers(1, max_rows))
    parents = draw(parent_table(n))
    if family == "default":
        base = draw(st.sampled_from([0, 1, 1, 1, 2, 7, 100, 99999]))
        ids = [base + i for i in range(n)]
        order = list(range(n))
    else:
        # how the file numbers and lists its nodes: scattered ids in any row order; a gap-free id range in any row order;
        # a gap-free range whose first row is the root with the smallest id (the rest shuffled); rows listed parents
        # first while the ids count down or are scattered (ids that do not grow from parent to child)
        id_mode = draw(st.sampled_from(["sparse", "sparse", "dense-shuffled", "dense-root-min-first",
                                        "parents-first-ids-down", "parents-first-ids-scattered"]))
        base = draw(st.sampled_from([0, 1, 1, 5, 11, 1000]))
        if id_mode == "sparse":
            ids = draw(st.lists(st.integers(0, 10 ** 6), min_size=n, max_size=n, unique=True))
            order = list(draw(st.permutations(range(n))))
        elif id_mode == "dense-shuffled":
            ids = [base + v for v in draw(st.permutations(range(n)))]
            order = list(draw(st.permutations(range(n))))
        elif id_mode == "dense-root-min-first":
            root = parents.index(-1)
            others = [i for i in range(n) if i != root]
            lab = list(draw(st.permutations(range(1, n))))
            ids = [0] * n
            ids[root] = base
            for i, v in zip(others, lab):
                ids[i] = base + v
            order = [root] + list(draw(st.permutations(others)))
        else:
            from vlib import models as _models

            order = _models.topo_order(parents)
            if id_mode == "parents-first-ids-down":
                step = draw(st.sampled_from([1, 1, 3]))
                ids = [0] * n
                for k, i in enumerate(order):
                    ids[i] = base + step * (n - 1 - k)
            else:
                ids = draw(st.lists(st.integers(0, 10 ** 6), min_size=n, max_size=n, unique=True))
        feats_id_mode = id_mode
    n_req = draw(st.sampled_from([0, 0, 0, 1, 2]))
    feats = set()
    lines = []  # (text, kind)
    rows = []
    comments = []
    any_unrequested = False
    first_unrequested_row = None

    def add_noise():
        for _ in range(draw(st.sampled_from([0, 0, 0, 1, 1, 2]))):
            t, c = draw(noise_line(unicode_ok))
            lines.append(t)
            if c is not None:
                comments.append(c)
                feats.add("comment-line")
            else:
                feats.add("blank-line")

    for node in order:
        add_noise()
        toks = []
        t, f = draw(spelled_uint(ids[node]))
        toks.append(t)
        feats.update(f)
        typ = draw(st.integers(0, 9)) if draw(st.integers(0, 9)) else draw(st.integers(0, 10 ** 5))
        t, f = draw(spelled_uint(typ))
        toks.append(t)
        vals = []
        for col in range(4):
            if family != "default" and col == 0:
                t, v, f = draw(spelled_float(value_digits=node, positive=True))
            else:
                t, v, f = draw(spelled_float(positive=(col == 3 and draw(st.integers(0, 5)) > 0)))
            toks.append(t)
            vals.append(frac_str(v))
            feats.update(f)
        if parents[node] == -1:
            pid = -1
            toks.append("-1")
        else:
            pid = ids[parents[node]]
            t, f = draw(spelled_uint(pid))
            toks.append(t)
        extras = []
        for _ in range(n_req):
            t, v, f = draw(spelled_float())
            toks.append(t)
            extras.append(frac_str(v))
            feats.update(f)
        if allow_unrequested and draw(st.integers(0, 5)) == 0:
            for _ in range(draw(st.integers(1, 3))):
                t, v, f = draw(spelled_float())
                toks.append(t)
                feats.add("unrequested-extra")
                if "exponent" in f:
                    feats.add("unrequested-extra-exponent")
            if not any_unrequested:
                first_unrequested_row = len(rows)
            any_unrequested = True
        lead = draw(st.sampled_from(["", "", "", " ", "\t", "   "]))
        trail = draw(st.sampled_from(["", "", "", " ", "\t ", "  "]))
        if lead:
            feats.add("leading-blank")
        if trail:
            feats.add("trailing-blank")
        seps = [draw(SEP) for _ in toks[1:]]
        if any(s != " " for s in seps):
            feats.add("wide-separators")
        text = lead + toks[0] + "".join(s + t for s, t in zip(seps, toks[1:])) + trail
        lines.append(text)
        rows.append({"id": ids[node], "type": typ, "x": vals[0], "y": vals[1], "z": vals[2],
                     "r": vals[3], "pid": pid, "extra": extras, "line": len(lines) - 1,
                     "node": node})
    add_noise()
    eol = draw(st.sampled_from(["\n", "\n", "\n", "\r\n"]))
    if eol != "\n":
        feats.add("crlf")
    final_newline = draw(st.integers(0, 3)) > 0
    if not final_newline:
        feats.add("no-final-newline")
    return {"lines": lines, "rows": rows, "comments": comments, "eol": eol,
            "final_newline": final_newline, "n_req": n_req, "unrequested": any_unrequested,
            "features": sorted(feats), "family": family, "parents": parents,
            "root_first": order[0] == 0, "id_mode": feats_id_mode if family != "default" else "default"}


def render(doc) -> str:
    text = doc["eol"].join(doc["lines"])
    if doc["final_newline"]:
        text += doc["eol"]
    return text


BAD_TOKENS = ["foo", "1.2.3", "12a", "--1", "1e", "abc", "1..2", "+-3", "x1", "1,5e", "?", "e5", "#", "#1", "1#", "#note"]


@st.composite
def malformed_line(draw):
    """A line that is neither a data row, a comment nor blank: (text, class)."""
    toks = []
    toks.append(str(draw(st.integers(0, 500))))
    toks.append(str(draw(st.integers(0, 7))))
    for _ in range(4):
        toks.append(draw(spelled_float(big=False))[0])
    toks.append(draw(st.sampled_from(["-1", "0", "3", "12"])))
    if draw(st.booleans()):
        k = draw(st.integers(1, 6))
        # fewer than seven fields: keep k of the seven, in order
        keep = sorted(draw(st.lists(st.integers(0, 6), min_size=k, max_size=k, unique=True)))
        toks = [toks[i] for i in keep]
        cls = "short-line"
    else:
        i = draw(st.integers(0, 6))
        bad = draw(st.sampled_from(BAD_TOKENS))
        if "#" in bad and i == 0:
            i = draw(st.integers(1, 6))  # a line that *starts* with '#' is a comment, not a malformed row
        if draw(st.integers(0, 3)) == 0 and i >= 1:
            toks.insert(i, bad)  # an extra non-numeric field among the seven ("2 3 1 0 # 0 1 1")
        else:
            toks[i] = bad
        cls = f"bad-token-field{i}"
        if "#" in bad:
            cls += "-hash"
    lead = draw(st.sampled_from(["", "", " ", "\t"]))
    return lead + " ".join(toks), cls


def fail_some_reads(tmpdir, how="rows-then-garbage", kinds=("str", "path")):
    """Reads that fail loudly part-way (the caller catches the error and goes on): rows and a comment first, then a line
    that is no row / a truncated row.  Whatever such a read leaves behind must not show in the next one."""
    import io
    import os

    from swcgeom.core import Tree
    from swcgeom.core.swc_utils import read_swc

    texts = {
        "rows-then-garbage": "# left over from a failed read\n1 1 5 5 5 5 -1\n2 3 6 5 5 5 1\n3 3 7 5 5 5 2\nthis is not a row\n4 3 8 5 5 5 3\n",
        "truncated-row": "1 1 5 5 5 5 -1\n2 3 6 5 5 5 1\n3 3 7 5",
    }
    text = texts.get(how, texts["rows-then-garbage"])
    for kind in kinds:
        if kind == "path":
            src = os.path.join(tmpdir, "failing.swc")
            with open(src, "w", encoding="utf-8") as f:
                f.write(text)
        else:
            src = io.StringIO(text)
        try:
            read_swc(src)
        except Exception:  # noqa
            pass
        try:
            Tree.from_swc(src if kind == "path" else io.StringIO(text))
        except Exception:  # noqa
            pass
