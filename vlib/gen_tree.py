"""Tree strategies.  A tree case is JSON:
   {"parents": [...], "x": [...], "y": [...], "z": [...], "r": [...], "type": [...],
    "tag": [...], "w": [...], "shape": mode, "regime": regime}
All floats are exactly representable in float32.  Parent arrays are constructed, never
filtered.  `build_tree` turns a case into a swcgeom Tree (extra columns tag:int32, w:float32).
"""
import numpy as np
from hypothesis import strategies as st

SHAPES = ["uniform", "chain", "star", "binary", "caterpillar", "rootdeg1", "rootdeg2", "rootdeg3"]
REGIMES = ["lattice", "float", "coincident"]


def f32(v) -> float:
    return float(np.float32(v))


def lattice_coord(lim=512):
    return st.integers(-lim, lim).map(lambda k: k / 8.0)


def float_coord(mag=1000.0, min_abs=None):
    """float32 coordinates in [-mag, mag].  With `min_abs`, magnitudes below it are snapped to 0: the library computes
    in float32, where the square of a difference below ~1e-19 underflows, so ratio-valued measures (angles, tortuosity)
    of vectors that short are outside their domain (construction, not filtering)."""
    base = st.floats(min_value=-mag, max_value=mag, width=32, allow_nan=False, allow_infinity=False)
    if min_abs is None:
        return base
    return base.map(lambda v: v if abs(v) >= min_abs else 0.0)


def radius():
    return st.one_of(
        st.integers(1, 160).map(lambda k: k / 16.0),
        st.floats(min_value=0.015625, max_value=20.0, width=32, allow_nan=False),
    )


@st.composite
def parents_of_shape(draw, n, shape):
    """Parent array with parents[i] < i (i > 0), root 0."""
    parents = [-1]
    nchild = [0]
    spine = [0]
    for i in range(1, n):
        if shape == "chain":
            p = i - 1 if draw(st.integers(0, 7)) else draw(st.integers(0, i - 1))
        elif shape == "star":
            hub = 0 if i < 3 else draw(st.sampled_from([0, 0, 1, 2]))
            p = hub if draw(st.integers(0, 4)) else draw(st.integers(0, i - 1))
        elif shape == "binary":
            cands = [j for j in range(i) if nchild[j] < 2]
            p = cands[draw(st.integers(0, len(cands) - 1))]
        elif shape == "caterpillar":
            if draw(st.booleans()):
                p = spine[-1]
                spine.append(i)
            else:
                p = spine[draw(st.integers(0, len(spine) - 1))]
        elif shape == "rootdeg1":
            p = 0 if i == 1 else draw(st.integers(1, i - 1))
        elif shape == "rootdeg2":
            p = 0 if i <= 2 else draw(st.integers(1, i - 1))
        elif shape == "rootdeg3":
            p = 0 if i <= 3 else draw(st.integers(0, i - 1))
        else:
            p = draw(st.integers(0, i - 1))
        parents.append(p)
        nchild[p] += 1
        nchild.append(0)
    return parents


def permute_keep_root(parents, perm):
    """perm: permutation of 1..n-1 (list of length n-1). Node i>0 gets new id perm[i-1]."""
    n = len(parents)
    new = [0] + list(perm)
    out = [None] * n
    for i in range(n):
        out[new[i]] = -1 if parents[i] == -1 else new[parents[i]]
    return out, new  # new[i] = new id of old node i


@st.composite
def topology_case(draw, min_n=1, max_n=40, shapes=None, permute=None):
    """Only the parent array (for checks that do not look at node attributes)."""
    n = draw(st.integers(min_n, max_n))
    shape = draw(st.sampled_from(shapes or SHAPES))
    parents = draw(parents_of_shape(n, shape))
    do_perm = draw(st.booleans()) if permute is None else permute
    if do_perm and n > 2:
        perm = draw(st.permutations(list(range(1, n))))
        parents, _ = permute_keep_root(parents, perm)
    return {"parents": parents, "shape": shape, "permuted": bool(do_perm and n > 2)}


@st.composite
def tree_case(draw, min_n=1, max_n=40, shapes=None, regimes=None, permute=None, soma_root=None,
              types_max=7, extras=True, distinct_points=False, mag=1000.0, min_abs=None):
    n = draw(st.integers(min_n, max_n))
    shape = draw(st.sampled_from(shapes or SHAPES))
    regime = draw(st.sampled_from(regimes or REGIMES))
    parents = draw(parents_of_shape(n, shape))
    if permute is None:
        do_perm = draw(st.booleans())
    else:
        do_perm = permute
    if do_perm and n > 2:
        perm = draw(st.permutations(list(range(1, n))))
        parents, _ = permute_keep_root(parents, perm)
    coord = lattice_coord() if regime in ("lattice", "coincident") else float_coord(mag, min_abs)
    xs, ys, zs = [0.0] * n, [0.0] * n, [0.0] * n
    # fill in an order where the parent is known (parents may be > child after permutation)
    order = _topo_order(parents)
    seen = set()
    for i in order:
        p = parents[i]
        if regime == "coincident" and p != -1 and not distinct_points and draw(st.integers(0, 3)) == 0:
            xs[i], ys[i], zs[i] = xs[p], ys[p], zs[p]
        else:
            c = (draw(coord), draw(coord), draw(coord))
            k = 0
            while distinct_points and c in seen:  # constructed, not filtered: step aside until unique
                k += 1
                c = (f32(c[0] + 0.125 * k), f32(c[1] + 0.25 * (k % 3)), c[2])
            xs[i], ys[i], zs[i] = c
        seen.add((xs[i], ys[i], zs[i]))
    rs = [draw(radius()) for _ in range(n)]
    ts = [draw(st.integers(0, types_max)) for _ in range(n)]
    sr = draw(st.booleans()) if soma_root is None else soma_root
    if sr:
        ts[0] = 1
    elif ts[0] == 1 and soma_root is False:
        ts[0] = 3
    case = {"parents": parents, "x": xs, "y": ys, "z": zs, "r": rs, "type": ts,
            "shape": shape, "regime": regime, "permuted": bool(do_perm and n > 2)}
    if extras:
        case["tag"] = list(draw(st.permutations(list(range(100, 100 + n))))) if n <= 12 else \
            _bulk_perm(draw(st.integers(0, 2 ** 32 - 1)), n)
        case["w"] = [draw(st.integers(-64, 64)) / 4.0 for _ in range(n)]
    return case


def _bulk_perm(seed, n):
    rs = np.random.RandomState(seed)
    return [int(v) for v in (rs.permutation(n) + 100)]


def _topo_order(parents):
    n = len(parents)
    ch = [[] for _ in range(n)]
    root = 0
    for i, p in enumerate(parents):
        if p == -1:
            root = i
        else:
            ch[p].append(i)
    order, stack = [], [root]
    while stack:
        i = stack.pop()
        order.append(i)
        stack.extend(reversed(ch[i]))
    return order


def bulk_tree_case(seed, n, shape="uniform", regime="float", soma_root=True, mag=100.0):
    """Deterministic large tree from one drawn seed (pure function of its arguments)."""
    rs = np.random.RandomState(seed)
    parents = [-1]
    for i in range(1, n):
        if shape == "chain":
            parents.append(i - 1)
        elif shape == "caterpillar":
            parents.append(i - 1 if i % 2 == 1 or i < 2 else i - 2)
        elif shape == "binary":
            parents.append((i - 1) // 2)
        elif shape == "hubs":
            # a chain 0-1-2 whose nodes have exactly 256, 257 and 255 children (counts that wrap a byte-sized counter);
            # every further node hangs below one of the leaves
            if i <= 2:
                parents.append(i - 1)
            elif i < 3 + 255:
                parents.append(0)
            elif i < 3 + 255 + 256:
                parents.append(1)
            elif i < 3 + 255 + 256 + 255:
                parents.append(2)
            else:
                parents.append(int(rs.randint(3, i)))
        else:
            parents.append(int(rs.randint(0, i)))
    if regime == "lattice":
        xyz = rs.randint(-512, 513, size=(n, 3)) / 8.0
    else:
        xyz = rs.uniform(-mag, mag, size=(n, 3)).astype(np.float32).astype(np.float64)
    r = rs.uniform(0.1, 5.0, size=n).astype(np.float32).astype(np.float64)
    t = rs.randint(0, 8, size=n)
    if soma_root:
        t[0] = 1
    return {"parents": parents, "x": xyz[:, 0].tolist(), "y": xyz[:, 1].tolist(),
            "z": xyz[:, 2].tolist(), "r": r.tolist(), "type": [int(v) for v in t],
            "tag": [int(v) for v in rs.permutation(n) + 100],
            "w": (rs.randint(-64, 65, size=n) / 4.0).tolist(),
            "shape": "bulk-" + shape, "regime": regime, "permuted": False}


# column names the extended SWC format reserves; a tree may carry any per-node measurement under any name
ESWC_NAMES = ["feature_value", "level", "mode", "timestamp", "teraflyindex", "seg_id", "creatmode", "tfresindex"]


def build_tree(case, extras=True, source="", comments=None, strided=False, aliased=False, more=None):
    """`strided`: x, y, z, r are handed over as the columns of one (n, 4) float32 array (non-contiguous views), the
    way a caller holding an xyzr matrix would.  `aliased`: a third extra column `w2` is given as the very same array
    object as `w` (one measurement registered under two names)."""
    from swcgeom.core import Tree

    n = len(case["parents"])
    kw = dict(more or {})  # further extra columns: name -> array
    if aliased and extras and "tag" in case:
        wcol = np.array(case["w"], dtype=np.float32)
        return Tree(n, id=np.arange(n, dtype=np.int32), pid=np.array(case["parents"], dtype=np.int32),
                    type=np.array(case["type"], dtype=np.int32), x=np.array(case["x"], dtype=np.float32),
                    y=np.array(case["y"], dtype=np.float32), z=np.array(case["z"], dtype=np.float32),
                    r=np.array(case["r"], dtype=np.float32), source=source, comments=comments,
                    tag=np.array(case["tag"], dtype=np.int32), w=wcol, w2=wcol)
    if strided:
        m = np.array([case["x"], case["y"], case["z"], case["r"]], dtype=np.float32).T.copy()
        if extras and "tag" in case:
            kw["tag"] = np.array(case["tag"], dtype=np.int32)
            kw["w"] = np.array(case["w"], dtype=np.float32)
        return Tree(n, id=np.arange(n, dtype=np.int32), pid=np.array(case["parents"], dtype=np.int32),
                    type=np.array(case["type"], dtype=np.int32), x=m[:, 0], y=m[:, 1], z=m[:, 2], r=m[:, 3],
                    source=source, comments=comments, **kw)
    if extras and "tag" in case:
        kw["tag"] = np.array(case["tag"], dtype=np.int32)
        kw["w"] = np.array(case["w"], dtype=np.float32)
    return Tree(
        n,
        id=np.arange(n, dtype=np.int32),
        pid=np.array(case["parents"], dtype=np.int32),
        type=np.array(case["type"], dtype=np.int32),
        x=np.array(case["x"], dtype=np.float32),
        y=np.array(case["y"], dtype=np.float32),
        z=np.array(case["z"], dtype=np.float32),
        r=np.array(case["r"], dtype=np.float32),
        source=source,
        comments=comments,
        **kw,
    )


def shape_classes(case):
    """Generator class labels for the evidence histogram."""
    from vlib import models

    parents = case["parents"]
    n = len(parents)
    ch = models.children(parents)
    root = parents.index(-1)
    out = ["shape:" + case["shape"], "regime:" + case["regime"]]
    if case.get("permuted"):
        out.append("permuted")
    if n == 1:
        out.append("single-node")
    else:
        d = len(ch[root])
        out.append("rootdeg:" + ("1" if d == 1 else "2" if d == 2 else "3+"))
        nf = sum(1 for c in ch if len(c) >= 2)
        if nf == 0:
            out.append("unbranched-chain")
        if nf >= 2:
            out.append("furcations>=2")
        if max(len(c) for c in ch) >= 3:
            out.append("degree>=3")
    return out


def materialize(t):
    """Cases may carry a large tree as {"bulk": [seed, n, shape, regime]} to stay small."""
    if "bulk" in t:
        seed, n, shape, regime = t["bulk"]
        return bulk_tree_case(seed, n, shape=shape, regime=regime, soma_root=True)
    return t


def swap_root(case, k):
    """Relabel so that the root sits at position k (ids 0 and k exchanged).  Such trees are what
    redirect_tree(sort=False) produces: node 0 is no longer the root."""
    n = len(case["parents"])
    k = k % n
    if k == 0:
        return case
    sw = lambda v: k if v == 0 else 0 if v == k else v  # noqa
    out = dict(case)
    par = [None] * n
    for i, p in enumerate(case["parents"]):
        par[sw(i)] = -1 if p == -1 else sw(p)
    out["parents"] = par
    for col in ("x", "y", "z", "r", "type", "tag", "w"):
        if col in case:
            v = list(case[col])
            v[0], v[k] = v[k], v[0]
            out[col] = v
    out["root_pos"] = k
    return out
