"""Reference models written from parent pointers with plain loops.

Nothing here calls the library's traverse / sort / subtree / branch code.
`parents` is a list with parents[i] = parent id or -1, ids are positions.
"""
import math

import numpy as np


def children(parents):
    ch = [[] for _ in parents]
    for i, p in enumerate(parents):
        if p != -1:
            ch[p].append(i)
    return ch


def roots(parents):
    return [i for i, p in enumerate(parents) if p == -1]


def ancestors(parents, i):
    """Proper ancestors of i, nearest first.  Assumes no cycle."""
    out = []
    p = parents[i]
    while p != -1:
        out.append(p)
        p = parents[p]
    return out


def depth_list(parents):
    n = len(parents)
    d = [-1] * n
    for i in range(n):
        path = []
        j = i
        while j != -1 and d[j] == -1:
            path.append(j)
            j = parents[j]
        base = -1 if j == -1 else d[j]
        for k in reversed(path):
            base += 1
            d[k] = base
    return d


def descendants_or_self(parents, i):
    ch = children(parents)
    out, stack = set(), [i]
    while stack:
        j = stack.pop()
        out.add(j)
        stack.extend(ch[j])
    return out


def tips(parents):
    ch = children(parents)
    return [i for i, c in enumerate(ch) if not c]


def furcations(parents):
    ch = children(parents)
    return [i for i, c in enumerate(ch) if len(c) >= 2]


def wellformed(ids, pids, require_sorted=False):
    """Returns None if (ids, pids) is a well-formed tree, else a reason string."""
    ids = [int(v) for v in ids]
    pids = [int(v) for v in pids]
    n = len(ids)
    if n == 0:
        return None
    if ids != list(range(n)):
        return f"ids are not positions 0..n-1: {ids[:20]}"
    if pids[0] != -1:
        return f"node 0 is not a root (pid {pids[0]})"
    for i in range(1, n):
        if pids[i] == -1:
            return f"node {i} is a second root"
        if not (0 <= pids[i] < n):
            return f"node {i} has parent {pids[i]} out of range"
        if require_sorted and not pids[i] < i:
            return f"parent {pids[i]} does not precede child {i}"
    # every node reaches the root
    state = [0] * n  # 0 unknown, 1 reaches root
    state[0] = 1
    for i in range(n):
        path = []
        j = i
        steps = 0
        while state[j] == 0:
            path.append(j)
            j = pids[j]
            steps += 1
            if steps > n:
                return f"node {i} does not reach the root (cycle)"
        for k in path:
            state[k] = 1
    return None


def branches(parents):
    """Reference branch decomposition: from every root/furcation walk down each child
    through pass-through nodes.  Returns a list of id tuples (start, ..., end)."""
    ch = children(parents)
    out = []
    rts = roots(parents)
    starts = [i for i in range(len(parents)) if len(ch[i]) >= 2 or (i in rts and len(ch[i]) >= 1)]
    seen_start = set()
    for s in starts:
        if s in seen_start:
            continue
        seen_start.add(s)
        for c in ch[s]:
            br = [s, c]
            while len(ch[br[-1]]) == 1:
                br.append(ch[br[-1]][0])
            out.append(tuple(br))
    return out


def paths(parents):
    """One root->tip id tuple per tip."""
    out = []
    for t in tips(parents):
        p = [t] + ancestors(parents, t)
        p.reverse()
        out.append(tuple(p))
    return out


def branch_order(parents):
    """Depth in the branch tree: number of furcations strictly above the node ... counted as
    the number of branch-tree edges from the root to the branch end the node belongs to."""
    ch = children(parents)
    n = len(parents)
    order = [0] * n
    for i in _topo(parents):
        p = parents[i]
        if p == -1:
            order[i] = 0
        else:
            order[i] = order[p] + (1 if (len(ch[p]) >= 2 or parents[p] == -1) else 0)
    return order


def _topo(parents):
    ch = children(parents)
    out = []
    stack = list(reversed(roots(parents)))
    while stack:
        i = stack.pop()
        out.append(i)
        stack.extend(reversed(ch[i]))
    return out


def topo_order(parents):
    return _topo(parents)


def xyz64(case):
    return np.stack([np.array(case["x"], dtype=np.float32), np.array(case["y"], dtype=np.float32),
                     np.array(case["z"], dtype=np.float32)], axis=1).astype(np.float64)


def seg_lengths(case):
    """float64 parent-child distances from the float32 coordinates (0 for roots)."""
    p = xyz64(case)
    out = np.zeros(len(p))
    for i, q in enumerate(case["parents"]):
        if q != -1:
            out[i] = math.sqrt(float(np.sum((p[i] - p[q]) ** 2)))
    return out


def polyline_length(pts):
    pts = np.asarray(pts, dtype=np.float64)
    if len(pts) < 2:
        return 0.0
    return float(np.sum(np.sqrt(np.sum((pts[1:] - pts[:-1]) ** 2, axis=1))))


# --------------------------------------------------------------------------- union-find model
class Partition:
    """Naive set partition: label per element, union relabels a whole block."""

    def __init__(self, n):
        self.label = list(range(n))

    def union(self, a, b):
        la, lb = self.label[a], self.label[b]
        if la != lb:
            self.label = [la if x == lb else x for x in self.label]

    def same(self, a, b):
        return self.label[a] == self.label[b]


# --------------------------------------------------------------------------- geometry
def rodrigues(axis, theta):
    """Right-handed rotation matrix about unit `axis` by `theta` (float64)."""
    a = np.asarray(axis, dtype=np.float64)
    a = a / np.linalg.norm(a)
    K = np.array([[0, -a[2], a[1]], [a[2], 0, -a[0]], [-a[1], a[0], 0]], dtype=np.float64)
    return np.eye(3) + math.sin(theta) * K + (1 - math.cos(theta)) * (K @ K)


# --------------------------------------------------------------------------- solids of revolution
def rev_sphere(zc, r):
    """Squared-radius profile of a sphere centred at axis position zc: (a, b, c, zlo, zhi)."""
    return (-1.0, 2.0 * zc, r * r - zc * zc, zc - r, zc + r)


def rev_frustum(z1, r1, z2, r2):
    """Squared-radius profile of a frustum from (z1, r1) to (z2, r2), z1 != z2."""
    if z2 < z1:
        z1, r1, z2, r2 = z2, r2, z1, r1
    k = (r2 - r1) / (z2 - z1)
    q = r1 - k * z1
    return (k * k, 2.0 * k * q, q * q, z1, z2)


def _quad_roots(a, b, c):
    if abs(a) < 1e-300:
        return [] if abs(b) < 1e-300 else [-c / b]
    d = b * b - 4.0 * a * c
    if d < 0:
        return []
    s = math.sqrt(d)
    return [(-b - s) / (2.0 * a), (-b + s) / (2.0 * a)]


def revolution_volume(profiles, mode):
    """Exact volume of the union ('max') or intersection ('min') of coaxial solids of revolution.

    Each profile is (a, b, c, zlo, zhi): rho^2(z) = a z^2 + b z + c on [zlo, zhi], 0 outside.
    The axis is cut at every interval end, every root of a profile and every crossing of two
    profiles; on each piece the selected profile is one quadratic and is integrated exactly
    (cubic antiderivative).  Nothing here shares a case analysis with the library.
    """
    bps = set()
    for (a, b, c, lo, hi) in profiles:
        bps.update([lo, hi])
        bps.update(_quad_roots(a, b, c))
    for i, (a, b, c, _, _) in enumerate(profiles):
        for (a2, b2, c2, _, _) in profiles[i + 1:]:
            bps.update(_quad_roots(a - a2, b - b2, c - c2))
    lo = min(p[3] for p in profiles)
    hi = max(p[4] for p in profiles)
    pts = sorted(z for z in bps if lo <= z <= hi)
    total = 0.0
    for z0, z1 in zip(pts, pts[1:]):
        if z1 <= z0:
            continue
        zm = 0.5 * (z0 + z1)
        vals = []
        for (a, b, c, l, h) in profiles:
            if l <= zm <= h:
                vals.append((max(a * zm * zm + b * zm + c, 0.0), (a, b, c)))
            else:
                vals.append((0.0, (0.0, 0.0, 0.0)))
        pick = max(vals, key=lambda v: v[0]) if mode == "max" else min(vals, key=lambda v: v[0])
        if pick[0] <= 0.0:
            continue
        a, b, c = pick[1]
        F = lambda z: a * z ** 3 / 3.0 + b * z * z / 2.0 + c * z  # noqa
        total += F(z1) - F(z0)
    return math.pi * total
