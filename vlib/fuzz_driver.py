"""Atheris (libFuzzer) campaign for one `Fuzz` sub-check, run as a subprocess of the harness:

    python -m vlib.fuzz_driver <module> <sub> <tier> <seed> <shard> <runs> <out.json> <workdir>

Two target shapes (see harness.Fuzz):
  * structured: the bytes libFuzzer mutates are Hypothesis's choice buffer; `test.hypothesis.fuzz_one_input`
    decodes them through the *same strategy* the @given sub-check uses, so every fuzz input is a case of the
    property's stated domain and the semantic oracle (`run`) sits inside the target;
  * raw: the bytes are the document itself (decoded as latin-1-safe text); `decode(data)` builds the JSON case.
Coverage feedback comes from the instrumented parser modules of the tree under test.  A violation does not
crash the process: it is recorded (smallest case per signature) and the campaign continues behind it, so one
shallow defect does not hide the rest.  libFuzzer ends the process itself (no atexit), therefore the result
file is rewritten whenever something changes and every few seconds.
"""
import json
import os
import sys
import time


def main():
    modname, subname, tier, seed, shard, runs, out_path, workdir = sys.argv[1:9]
    seed, shard, runs = int(seed), int(shard), int(runs)
    os.environ["VERIF_FUZZ_CHILD"] = "1"  # the engine owns SIGALRM here: Ctx.timed runs without its own alarm
    import atheris

    from vlib import harness

    # instrument the tree under test (parsers first: they are what the campaign is for) before importing it
    import importlib

    mod_spec = importlib.import_module(modname)  # props module imports swcgeom lazily inside run functions
    sub = next(s for s in mod_spec.SUBCHECKS if s.name == subname)
    with atheris.instrument_imports(include=list(sub.instrument)):
        for m in sub.instrument:
            importlib.import_module(m)

    res = harness.JobResult()
    known = set(json.loads(os.environ.get("VERIF_KNOWN_SIGS", "[]")))
    res.known_sigs = set(known)
    excluded = set(known)
    fails = {}  # sig -> (msg, case, size)
    state = {"t_dump": 0.0, "execs": 0, "harness_error": None, "invalid": 0}
    tmpdir = os.path.join(workdir, "tmp")
    os.makedirs(tmpdir, exist_ok=True)

    def dump(force=False):
        now = time.time()
        # libFuzzer leaves through exit() after the last run without giving Python a turn: dump on the last runs
        if not force and state["execs"] < runs - 2 and now - state["t_dump"] < 2.0:
            return
        state["t_dump"] = now
        data = {
            "evaluations": res.evaluations, "classes": res.classes, "ambiguous": res.ambiguous,
            "nontrivial_hashes": sorted(res.nontrivial_hashes)[:200000], "samples": res.samples,
            "known_hits": res.known_hits, "execs": state["execs"], "invalid_buffers": state["invalid"],
            "failures": [[sig, msg, case] for sig, (msg, case, _n) in fails.items()],
            "harness_error": state["harness_error"],
        }
        tmp = out_path + ".tmp"
        with open(tmp, "w", encoding="utf-8") as f:
            json.dump(data, f)
        os.replace(tmp, out_path)

    def run_case(case):
        try:
            v = harness._run_one(sub, case, res, tmpdir, excluded - set(fails), None)
        except harness.HarnessError as e:
            state["harness_error"] = str(e)[:2000]
            dump(force=True)
            os._exit(3)
        if v is not None and v.sig not in known:
            size = len(harness.canon(case))
            if v.sig not in fails or size < fails[v.sig][2]:
                fails[v.sig] = (v.msg, json.loads(harness.canon(case)), size)
                dump(force=True)

    if sub.mode == "structured":
        from hypothesis import HealthCheck, given, settings

        @settings(database=None, deadline=None, suppress_health_check=list(HealthCheck))
        @given(sub.strategy(tier))
        def test(case):
            run_case(case)

        fuzz_one = test.hypothesis.fuzz_one_input

        def target(data):
            state["execs"] += 1
            before = res.evaluations
            fuzz_one(data)
            if res.evaluations == before:
                state["invalid"] += 1  # buffer did not decode to a complete case
            dump()
    else:
        def target(data):
            state["execs"] += 1
            case = sub.decode(data)
            if case is None:
                state["invalid"] += 1
            else:
                run_case(case)
            dump()

    corpus = os.path.join(workdir, "corpus")
    os.makedirs(corpus, exist_ok=True)
    if sub.mode == "raw" and sub.seeds is not None and shard % 2 == 1:
        # odd shards start from a few small valid documents, even shards from an empty corpus
        for i, blob in enumerate(sub.seeds(tier)):
            with open(os.path.join(corpus, f"seed{i:03d}"), "wb") as f:
                f.write(blob)
    extra = []
    if sub.mode == "structured":
        # Hypothesis needs a few hundred to a few thousand bytes of choices to complete one case of these strategies:
        # start from full-length pseudo-random buffers (a pure function of the seed) and do not ramp the length up
        import random

        rnd = random.Random(seed * 1000003 + shard)
        for i in range(8):
            with open(os.path.join(corpus, f"rand{i:02d}"), "wb") as f:
                f.write(bytes(rnd.getrandbits(8) for _ in range(sub.max_len)))
        extra = ["-len_control=0"]
    argv = [sys.argv[0], *extra, f"-runs={runs}", f"-seed={(seed * 997 + shard) % (2 ** 31 - 1) + 1}",
            f"-max_len={sub.max_len}", "-print_final_stats=1", "-timeout=60", f"-artifact_prefix={workdir}/", "-verbosity=1",
            corpus]
    atheris.Setup(argv, target, enable_python_coverage=True)
    dump(force=True)
    try:
        atheris.Fuzz()
    finally:
        dump(force=True)


if __name__ == "__main__":
    main()
