"""Shared harness: seeded Hypothesis runs, sharding, evidence, replays, known findings.

A property module (props/cXX.py) exposes
    PROPERTY = "C02"
    RULE     = "<how cases are generated and what makes one non-trivial>"
    ASSUMPTIONS = [...]
    SUBCHECKS = [Sub(...), Machine(...), Enumerate(...)]

A *case* is a plain JSON value.  `Sub.run(case, ctx)` builds the objects, calls the
library and raises `Violation(sig, msg)` through `ctx.fail` / `ctx.check`.  Exceptions
that come out of library frames are converted to violations automatically
(signature = exception type + innermost library frame); exceptions whose innermost
frame is harness code are harness errors (exit 2), never violations.
"""
from __future__ import annotations

import hashlib
import json
import multiprocessing as mp
import os
import shutil
import signal
import sys
import tempfile
import time
import traceback
import warnings

VERIF = os.path.dirname(os.path.dirname(os.path.abspath(__file__)))
REPO = os.path.abspath(os.environ.get("VERIF_REPO", "/repo"))
OUT = os.path.abspath(os.environ.get("VERIF_OUT", VERIF))  # evidence/ and new replays go here
KNOWN_FILE = os.path.join(VERIF, "KNOWN_FINDINGS.txt")


# --------------------------------------------------------------------------- errors
class Violation(Exception):
    def __init__(self, sig: str, msg: str = ""):
        super().__init__(f"{sig}: {msg}")
        self.sig = sig
        self.msg = msg


class HarnessError(Exception):
    pass


class _Timeout(BaseException):
    pass


_TIMED_OUT: dict = {}


def canon(case) -> str:
    return json.dumps(case, sort_keys=True, separators=(",", ":"), allow_nan=True)


def case_hash(case) -> str:
    return hashlib.sha1(canon(case).encode()).hexdigest()


def derive_seed(*parts) -> int:
    h = hashlib.sha1("|".join(str(p) for p in parts).encode()).digest()
    return int.from_bytes(h[:8], "big")


def _is_repo(fn: str) -> bool:
    fn = os.path.abspath(fn)
    return fn.startswith(REPO + os.sep)


def _is_verif(fn: str) -> bool:
    fn = os.path.abspath(fn)
    return fn.startswith(VERIF + os.sep)


def classify_exception(e: BaseException, where: str):
    """Library exception -> Violation; harness exception -> HarnessError."""
    tb = traceback.extract_tb(e.__traceback__)
    lib = [f for f in tb if _is_repo(f.filename)]
    if not lib:
        return HarnessError(
            f"{where}: {type(e).__name__}: {e}\n" + "".join(traceback.format_tb(e.__traceback__))
        )
    inner = tb[-1]
    if _is_verif(inner.filename):
        # a harness callback (or oracle code) failed underneath a library call
        return HarnessError(
            f"{where}: {type(e).__name__}: {e}\n" + "".join(traceback.format_tb(e.__traceback__))
        )
    f = lib[-1]
    mod = os.path.relpath(f.filename, REPO).replace(os.sep, ".").removesuffix(".py")
    sig = f"{where}/raises:{type(e).__name__}@{mod}.{f.name}"
    return Violation(sig, f"{type(e).__name__}: {str(e)[:300]}")


# --------------------------------------------------------------------------- context
class Ctx:
    """Per-case context handed to run functions."""

    def __init__(self, sub_name: str, tmpdir: str):
        self.sub = sub_name
        self.tmpdir = tmpdir
        self.classes: list[str] = []
        self.ambiguous_reasons: list[str] = []
        self.is_nontrivial = False
        self.notes: dict = {}

    def cls(self, *labels: str):
        self.classes.extend(labels)

    def nontrivial(self, flag: bool = True):
        if flag:
            self.is_nontrivial = True

    def ambiguous(self, reason: str):
        self.ambiguous_reasons.append(reason)

    def fail(self, clause: str, msg: str = ""):
        raise Violation(f"{self.sub}/{clause}", msg)

    def check(self, cond, clause: str, msg=""):
        if not cond:
            if callable(msg):
                msg = msg()
            raise Violation(f"{self.sub}/{clause}", str(msg))

    def lib(self, clause: str, fn, *a, **kw):
        """Call library code; any exception is a violation of `clause`."""
        try:
            return fn(*a, **kw)
        except Violation:
            raise
        except _Timeout:
            raise
        except HarnessError:
            raise
        except (KeyboardInterrupt, SystemExit, GeneratorExit):
            raise
        except BaseException as e:  # noqa - incl. PanicException from compiled extensions
            if type(e).__module__.startswith("hypothesis"):
                raise
            raise Violation(
                f"{self.sub}/{clause}/raises:{type(e).__name__}", f"{type(e).__name__}: {str(e)[:300]}"
            ) from e

    def timed(self, clause: str, fn, *a, limit: float = 20.0, **kw):
        """Run fn under a watchdog; not returning within `limit` s is a violation."""

        def handler(signum, frame):
            # an exception raised inside a gc callback (Hypothesis installs one) is swallowed by the
            # interpreter: if the signal lands there, fire again a moment later instead of raising
            f, depth = frame, 0
            while f is not None and depth < 3:
                if f.f_code.co_name == "gc_callback":
                    signal.setitimer(signal.ITIMER_REAL, 0.01)
                    return
                f, depth = f.f_back, depth + 1
            raise _Timeout()

        # once a clause has timed out in this process, later calls get a short leash (the hang is
        # already a violation; waiting the full limit for every further input only burns time and memory)
        if os.environ.get("VERIF_FUZZ_CHILD"):
            # inside an Atheris campaign the engine's own per-input timeout watches the call (the input it wrote
            # out is replayed under this watchdog by the parent afterwards)
            return fn(*a, **kw)
        key = f"{self.sub}/{clause}"
        if _TIMED_OUT.get(key):
            limit = min(limit, 0.25)
        old = signal.signal(signal.SIGALRM, handler)
        signal.setitimer(signal.ITIMER_REAL, limit)
        try:
            return fn(*a, **kw)
        except _Timeout:
            _TIMED_OUT[key] = _TIMED_OUT.get(key, 0) + 1
            raise Violation(f"{self.sub}/{clause}/does-not-return", f"no answer within {limit}s")
        finally:
            signal.setitimer(signal.ITIMER_REAL, 0)
            signal.signal(signal.SIGALRM, old)


# --------------------------------------------------------------------------- sub-check kinds
class Sub:
    """A @given-style sub-check: strategy(tier) -> JSON case; run(case, ctx)."""

    kind = "given"

    def __init__(self, name, strategy, run, quick=200, thorough=2000, shards_quick=2,
                 shards_thorough=16, required=None, weight=1.0):
        self.name = name
        self.strategy = strategy
        self.run = run
        self.n = {"quick": quick, "thorough": thorough}
        self.shards = {"quick": shards_quick, "thorough": shards_thorough}
        self.required = required or {}

    def execute(self, case, ctx):
        self.run(case, ctx)


class Machine:
    """Stateful sub-check.  A case is {"init": <json>, "steps": [[rule, args], ...]}.

    spec fields:
      init_strategy(tier) -> strategy for the init value
      rules: dict name -> (tier -> strategy of args)  (args must be JSON)
      start(init, ctx) -> state
      apply(state, name, args, ctx) -> None          (raise Violation via ctx)
      invariant(state, ctx) -> None
      finish(state, ctx) -> None                     (classify the history)
    The same interpreter runs under Hypothesis's RuleBasedStateMachine and on replay.
    """

    kind = "machine"

    def __init__(self, name, init_strategy, rules, start, apply, invariant=None, finish=None,
                 quick=60, thorough=400, steps_quick=25, steps_thorough=50, shards_quick=2,
                 shards_thorough=16, required=None):
        self.name = name
        self.init_strategy = init_strategy
        self.rules = rules
        self.start = start
        self.apply = apply
        self.invariant = invariant
        self.finish = finish
        self.n = {"quick": quick, "thorough": thorough}
        self.steps = {"quick": steps_quick, "thorough": steps_thorough}
        self.shards = {"quick": shards_quick, "thorough": shards_thorough}
        self.required = required or {}

    def execute(self, case, ctx):
        state = self.start(case["init"], ctx)
        try:
            if self.invariant:
                self.invariant(state, ctx)
            for name, args in case["steps"]:
                self.apply(state, name, args, ctx)
                if self.invariant:
                    self.invariant(state, ctx)
            if self.finish:
                self.finish(state, ctx)
        finally:
            close = getattr(state, "close", None)
            if close:
                close()


class Enumerate:
    """Exhaustive enumeration of a finite domain: cases(tier) yields JSON cases."""

    kind = "enumerate"

    def __init__(self, name, cases, run, shards_quick=4, shards_thorough=16, required=None,
                 count=None, exhaustive=True):
        # exhaustive=False: `cases` lists a fixed set of constructed cases (every boundary size once, say) whose free
        # parameters are a pure function of VERIF_SEED - a listed sample, not a whole finite domain
        self.exhaustive = exhaustive
        self.name = name
        self.cases = cases
        self.run = run
        self.n = {"quick": 0, "thorough": 0}
        self.shards = {"quick": shards_quick, "thorough": shards_thorough}
        self.required = required or {}

    def execute(self, case, ctx):
        self.run(case, ctx)


class Fuzz:
    """Coverage-guided campaign (Atheris / libFuzzer), thorough tier only, run by vlib/fuzz_driver.py in a
    subprocess per shard.  mode="structured": libFuzzer mutates Hypothesis's choice buffer of `strategy(tier)`
    (the strategy of an existing @given sub-check) and `run(case, ctx)` is that sub-check's oracle.
    mode="raw": libFuzzer mutates the document bytes; `decode(bytes) -> case | None`, `seeds(tier) -> [bytes]`
    (used by odd shards; even shards start from an empty corpus).  `instrument` lists the modules of the tree
    under test that get coverage instrumentation.  A case found by a campaign is replayed like any other."""

    kind = "fuzz"

    def __init__(self, name, run, instrument, mode="structured", strategy=None, decode=None, seeds=None,
                 runs_thorough=20000, shards_thorough=4, runs_quick=0, shards_quick=0, max_len=4096,
                 required=None):
        self.name = name
        self.run = run
        self.mode = mode
        self.strategy = strategy
        self.decode = decode
        self.seeds = seeds
        self.instrument = instrument
        self.max_len = max_len
        self.n = {"quick": runs_quick, "thorough": runs_thorough}
        self.shards = {"quick": shards_quick, "thorough": shards_thorough}
        self.required = required or {}

    def execute(self, case, ctx):
        self.run(case, ctx)


# --------------------------------------------------------------------------- known findings
def load_known(prop: str):
    """Returns {sig: text} for `finding:` lines of this property. `fixed:` lines suppress nothing."""
    known = {}
    if not os.path.exists(KNOWN_FILE):
        return known
    for line in open(KNOWN_FILE, encoding="utf-8"):
        line = line.strip()
        if not line.startswith("finding:"):
            continue
        body = line[len("finding:"):].strip()
        toks = body.split()
        kv = dict(t.split("=", 1) for t in toks[:2] if "=" in t)
        if kv.get("property") != prop or "sig" not in kv:
            continue
        known[kv["sig"]] = " ".join(toks[2:])
    return known


# --------------------------------------------------------------------------- job execution
class JobResult:
    def __init__(self):
        self.evaluations = 0
        self.classes = {}
        self.ambiguous = {}
        self.nontrivial = {}  # hash -> case json (only a few kept), count via keys
        self.nontrivial_hashes = set()
        self.samples = []
        self.known_hits = {}
        self.known_sigs = set()
        self.failures = []  # (sig, msg, case)
        self.harness_error = None
        self.wall = 0.0
        self.exhaustive = False
        self.budget_exhausted = False
        self.engine = None

    def commit(self, case, ctx: Ctx, case_json=None):
        for c in ctx.classes:
            self.classes[c] = self.classes.get(c, 0) + 1
        for a in ctx.ambiguous_reasons:
            self.ambiguous[a] = self.ambiguous.get(a, 0) + 1
        if ctx.is_nontrivial:
            s = case_json if case_json is not None else canon(case)
            h = hashlib.sha1(s.encode()).hexdigest()
            if h not in self.nontrivial_hashes:
                self.nontrivial_hashes.add(h)
                if len(s) <= 3000 and len(self.samples) < 3:
                    self.samples.append(json.loads(s))


def _seed_numpy(case_json: str):
    import numpy as np

    np.random.seed(int(hashlib.sha1(case_json.encode()).hexdigest()[:8], 16))


def _run_one(sub, case, res: JobResult, tmpdir, excluded, focus, count=True):
    """Execute one case.  Returns None if it passed (or hit an excluded signature),
    else the Violation.  HarnessError propagates."""
    cj = canon(case)
    _seed_numpy(cj)
    ctx = Ctx(sub.name, tmpdir)
    if count:
        res.evaluations += 1
    try:
        with warnings.catch_warnings():
            warnings.simplefilter("ignore")
            sub.execute(case, ctx)
    except Violation as v:
        viol = v
    except HarnessError:
        raise
    except (KeyboardInterrupt, SystemExit, _Timeout):
        raise
    except RecursionError as e:
        c = classify_exception(e, sub.name)
        if isinstance(c, HarnessError):
            raise c
        viol = c
    except BaseException as e:  # noqa - incl. pyo3's PanicException (a BaseException) from compiled extensions
        # hypothesis control-flow exceptions must pass through untouched
        if type(e).__module__.startswith("hypothesis") or isinstance(e, GeneratorExit):
            raise
        c = classify_exception(e, sub.name)
        if isinstance(c, HarnessError):
            raise c
        viol = c
    else:
        if count:
            res.commit(case, ctx, cj)
        return None
    if viol.sig in excluded:
        if count and viol.sig in res.known_sigs:
            res.known_hits[viol.sig] = res.known_hits.get(viol.sig, 0) + 1
        return None
    if focus is not None and viol.sig != focus:
        return None  # while shrinking signature `focus`, other signatures are ignored
    return viol


MAX_ROUNDS = 6


def run_job(args):
    """Worker entry: (module_name, sub_name, shard, tier, seed, known_sigs, n_override)."""
    modname, subname, shard, tier, seed, known_sigs, n_override = args
    warnings.filterwarnings("ignore", message="Generating overly large repr")
    try:  # pool workers are daemonic; the code under test may itself start processes (Population.map)
        mp.current_process()._config["daemon"] = False
    except Exception:  # noqa
        pass
    t0 = time.time()
    res = JobResult()
    res.known_sigs = set(known_sigs)
    tmpdir = tempfile.mkdtemp(prefix="verif-")
    try:
        import importlib

        mod = importlib.import_module(modname)
        sub = next(s for s in mod.SUBCHECKS if s.name == subname)
        nshards = sub.shards[tier]
        excluded = set(known_sigs)
        if sub.kind == "enumerate":
            _job_enumerate(sub, shard, nshards, tier, res, tmpdir, excluded)
        elif sub.kind == "fuzz":
            _job_fuzz(modname, sub, shard, tier, seed, res, tmpdir, known_sigs, n_override)
        else:
            n_total = n_override if n_override else sub.n[tier]
            n = max(1, n_total // nshards)
            for _round in range(MAX_ROUNDS):
                fail = _job_hypothesis(sub, tier, n, derive_seed(seed, sub.name, shard), res,
                                       tmpdir, excluded)
                if fail is None:
                    break
                res.failures.append(fail)
                excluded.add(fail[0])
                if os.environ.get("VERIF_FAST_FAIL"):
                    break  # detection only (re-checks of stored seeded changes): no shrinking, no search behind the first failure
    except HarnessError as e:
        res.harness_error = str(e)
    except Exception as e:  # noqa
        res.harness_error = f"{type(e).__name__}: {e}\n{traceback.format_exc()}"
    finally:
        shutil.rmtree(tmpdir, ignore_errors=True)
    res.wall = time.time() - t0
    return (subname, shard, res)


def _job_enumerate(sub, shard, nshards, tier, res, tmpdir, excluded):
    seen_fail = {}
    for i, case in enumerate(sub.cases(tier)):
        if i % nshards != shard:
            continue
        v = _run_one(sub, case, res, tmpdir, excluded, None)
        if v is not None and v.sig not in seen_fail:
            # smallest-first enumeration: the first case per signature is the reported one
            seen_fail[v.sig] = (v.sig, v.msg, case)
            excluded = excluded | {v.sig}
    res.failures.extend(seen_fail.values())
    res.exhaustive = bool(getattr(sub, "exhaustive", True))


def _job_fuzz(modname, sub, shard, tier, seed, res, tmpdir, known_sigs, n_override):
    """One Atheris campaign in a subprocess; its result file is merged into `res`.  If the engine cannot
    start (atheris not installed) the sub-check is reported as unavailable, never as a violation."""
    import re
    import subprocess

    runs = n_override if n_override else sub.n[tier]
    deps = os.path.join(VERIF, ".deps")
    out = os.path.join(tmpdir, "fuzz.json")
    env = dict(os.environ, PYTHONPATH=os.pathsep.join([REPO, VERIF, deps]), PYTHONHASHSEED="0",
               VERIF_REPO=REPO, VERIF_KNOWN_SIGS=json.dumps(sorted(known_sigs)))
    probe = subprocess.run([sys.executable, "-c", "import atheris"], env=env, capture_output=True)
    if probe.returncode != 0:
        res.engine = {"atheris": "unavailable: " + probe.stderr.decode(errors="replace")[-200:]}
        return
    cmd = [sys.executable, "-m", "vlib.fuzz_driver", modname, sub.name, tier, str(seed), str(shard), str(runs),
           out, tmpdir]
    budget = 3600
    try:
        p = subprocess.run(cmd, env=env, cwd=VERIF, capture_output=True, timeout=budget)
        err = p.stderr.decode(errors="replace")
        rc = p.returncode
    except subprocess.TimeoutExpired as e:
        err = (e.stderr or b"").decode(errors="replace")
        rc = "time budget used up (inconclusive, not a violation)"
        res.budget_exhausted = True
    if not os.path.exists(out):
        raise HarnessError(f"{sub.name}[{shard}]: fuzz driver wrote no result (rc={rc}): {err[-1500:]}")
    data = json.load(open(out, encoding="utf-8"))
    if data.get("harness_error"):
        raise HarnessError(f"{sub.name}[{shard}]: {data['harness_error']}")
    res.evaluations += data["evaluations"]
    for k, v in data["classes"].items():
        res.classes[k] = res.classes.get(k, 0) + v
    for k, v in data["ambiguous"].items():
        res.ambiguous[k] = res.ambiguous.get(k, 0) + v
    res.nontrivial_hashes |= set(data["nontrivial_hashes"])
    res.samples.extend(data["samples"][:3])
    for k, v in data["known_hits"].items():
        res.known_hits[k] = res.known_hits.get(k, 0) + v
    for sig, msg, case in data["failures"]:
        res.failures.append((sig, msg, case))
    # inputs the engine itself gave up on (its per-input timeout, or a dying interpreter) are replayed here, under
    # the ordinary watchdog, through the same oracle
    for fn in sorted(os.listdir(tmpdir)):
        if not (fn.startswith("timeout-") or fn.startswith("crash-") or fn.startswith("oom-")):
            continue
        blob = open(os.path.join(tmpdir, fn), "rb").read()
        for case in _decode_fuzz_artifact(sub, tier, blob):
            v = _run_one(sub, case, res, tmpdir, set(known_sigs), None)
            if v is not None:
                res.failures.append((v.sig, v.msg, json.loads(canon(case))))
        rc = f"{rc} (engine artifact {fn.split('-')[0]} replayed)"
    cov = re.findall(r"#(\d+)\s+\w+\s+cov: (\d+) ft: (\d+)", err)
    done = re.findall(r"#(\d+)\s+DONE\s+cov: (\d+) ft: (\d+)", err)
    last = (done or cov or [("0", "0", "0")])[-1]
    res.engine = {"atheris": {"execs": data["execs"], "undecodable_buffers": data["invalid_buffers"],
                              "edges_covered": int(last[1]), "features": int(last[2]),
                              "corpus": "seeded" if (sub.mode == "raw" and shard % 2 == 1) else "empty",
                              "exit": rc}}
    if isinstance(rc, int) and rc not in (0,) and not data["failures"] and not res.failures:
        # libFuzzer died on something the driver did not classify (interpreter crash, OOM)
        raise HarnessError(f"{sub.name}[{shard}]: fuzz driver exit {rc}: {err[-1500:]}")


def _decode_fuzz_artifact(sub, tier, blob):
    """The JSON case(s) behind the bytes of an engine artifact (raw: decode; structured: Hypothesis's own decoding)."""
    if sub.mode == "raw":
        case = sub.decode(blob)
        return [] if case is None else [case]
    from hypothesis import HealthCheck, given, settings

    got = []

    @settings(database=None, deadline=None, suppress_health_check=list(HealthCheck))
    @given(sub.strategy(tier))
    def capture(case):
        got.append(json.loads(canon(case)))

    try:
        capture.hypothesis.fuzz_one_input(blob)
    except Exception:  # noqa
        pass
    return got


def _job_hypothesis(sub, tier, n, seed_value, res, tmpdir, excluded):
    from hypothesis import HealthCheck, Phase, given, seed, settings
    from hypothesis import strategies as st

    shrink_budget = 20.0 if tier == "quick" else 120.0
    state = {"fail": None, "t_fail": None, "focus": None}

    def attempt(case):
        if state["t_fail"] is not None and time.time() - state["t_fail"] > shrink_budget:
            res.budget_exhausted = True
            return  # stop shrinking: every further candidate "passes"
        v = _run_one(sub, case, res, tmpdir, excluded, state["focus"],
                     count=state["fail"] is None)
        if v is not None:
            if state["fail"] is None:
                state["t_fail"] = time.time()
                state["focus"] = v.sig
            state["fail"] = (v.sig, v.msg, json.loads(canon(case)))
            raise v

    common = dict(database=None, deadline=None, report_multiple_bugs=False, derandomize=False,
                  suppress_health_check=[HealthCheck.too_slow, HealthCheck.data_too_large,
                                         HealthCheck.large_base_example,
                                         HealthCheck.filter_too_much],
                  phases=[Phase.generate] if os.environ.get("VERIF_FAST_FAIL") else [Phase.generate, Phase.shrink])
    try:
        if sub.kind == "given":
            @seed(seed_value)
            @settings(max_examples=n, **common)
            @given(sub.strategy(tier))
            def test(case):
                attempt(case)

            test()
        else:
            _run_machine(sub, tier, n, seed_value, attempt, common, res)
    except HarnessError:
        raise
    except (KeyboardInterrupt, SystemExit):
        raise
    except BaseException as e:  # noqa - Violation re-raised by hypothesis, Flaky, ...
        if state["fail"] is not None:
            return state["fail"]
        raise HarnessError(f"{sub.name}: hypothesis failed without a recorded violation: "
                           f"{type(e).__name__}: {e}\n{traceback.format_exc()}")
    if state["fail"] is not None:  # failure swallowed after budget
        return state["fail"]
    return None


def _run_machine(sub, tier, n, seed_value, attempt, common, res):
    from hypothesis import seed, settings
    from hypothesis import strategies as st
    from hypothesis.stateful import (RuleBasedStateMachine, initialize, invariant, rule,
                                     run_state_machine_as_test)

    # The machine only *records* the program; the interpreter (sub.execute) runs the
    # whole recorded program at teardown-equivalent points.  To let Hypothesis stop a
    # history at the first failing step, the program is re-interpreted incrementally:
    # state is carried along and each rule applies exactly one step.
    class _Run:
        pass

    def mk_rule(name, strat):
        @rule(args=strat)
        def r(self, args):
            self._step(name, args)

        r.__name__ = f"rule_{name}"
        return r

    def _init(self, init):
        self.log = {"init": init, "steps": []}
        self._begin()

    attrs = {}
    attrs["_do_init"] = initialize(init=sub.init_strategy(tier))(_init)
    for name, strat_fn in sub.rules.items():
        attrs[f"rule_{name}"] = mk_rule(name, strat_fn(tier))

    class Base(RuleBasedStateMachine):
        def __init__(self):
            super().__init__()
            self.log = None
            self.state = None
            self.ctx = None
            self.dead = False

        def _guard(self, fn):
            """Run one interpreter action; on failure hand the *whole log* to attempt()."""
            try:
                with warnings.catch_warnings():
                    warnings.simplefilter("ignore")
                    fn()
            except BaseException as e:  # noqa
                if type(e).__module__.startswith("hypothesis"):
                    raise
                self.dead = True
                self._close()
                # re-run the recorded program from scratch through the common path so that
                # classification, exclusion and focus logic are identical to replay
                attempt(json.loads(canon(self.log)))
                # reaching here: the from-scratch run passed (excluded signature, other
                # signature while shrinking, or shrink budget used up); the history ends.

        def _begin(self):
            self.ctx = Ctx(sub.name, tempfile.mkdtemp(prefix="verif-m-"))
            _seed_numpy(canon(self.log["init"]))

            def go():
                self.state = sub.start(self.log["init"], self.ctx)
                if sub.invariant:
                    sub.invariant(self.state, self.ctx)

            self._guard(go)

        def _step(self, name, args):
            if self.dead or self.state is None:
                return
            self.log["steps"].append([name, args])

            def go():
                sub.apply(self.state, name, args, self.ctx)
                if sub.invariant:
                    sub.invariant(self.state, self.ctx)

            self._guard(go)

        def _close(self):
            st_ = self.state
            self.state = None
            close = getattr(st_, "close", None)
            if close:
                try:
                    close()
                except Exception:
                    pass
            if self.ctx is not None:
                shutil.rmtree(self.ctx.tmpdir, ignore_errors=True)

        def teardown(self):
            if self.log is None:
                return
            if not self.dead and self.state is not None:
                def go():
                    if sub.finish:
                        sub.finish(self.state, self.ctx)

                self._guard(go)
                if not self.dead:
                    res.evaluations += 1
                    res.commit(self.log, self.ctx)
            self._close()

    M = type(f"M_{sub.name}", (Base,), attrs)
    run_state_machine_as_test(
        seed(seed_value)(M),
        settings=settings(max_examples=n, stateful_step_count=sub.steps[tier], **common),
    )


# --------------------------------------------------------------------------- top level
def write_replay(prop, subname, sig, msg, case):
    d = os.path.join(OUT, "replays", prop, "new")
    os.makedirs(d, exist_ok=True)
    h = case_hash({"s": sig, "c": case})[:12]
    path = os.path.join(d, f"{subname}-{h}.json")
    with open(path, "w", encoding="utf-8") as f:
        json.dump({"property": prop, "sub": subname, "sig": sig, "msg": msg, "case": case}, f,
                  indent=1, sort_keys=True)
    return path


def load_module(prop: str):
    import importlib

    return importlib.import_module(f"props.{prop.lower()}")


def replay_file(prop, path):
    mod = load_module(prop)
    data = json.load(open(path, encoding="utf-8"))
    sub = next(s for s in mod.SUBCHECKS if s.name == data["sub"])
    res = JobResult()
    tmpdir = tempfile.mkdtemp(prefix="verif-")
    try:
        v = _run_one(sub, data["case"], res, tmpdir, set(), None)
    finally:
        shutil.rmtree(tmpdir, ignore_errors=True)
    return v


def main_check(prop: str, tier: str, seed: int, only_sub=None, n_override=None, workers=None):
    t0 = time.time()
    prop = prop.upper()
    mod = load_module(prop)
    known = load_known(prop)
    violations = []  # (sub, sig, msg, path)
    known_hits = {}
    harness_errors = []

    # 1. regression corpus (seconds): committed replays of earlier failures
    corpus_dir = os.path.join(VERIF, "replays", prop)
    n_corpus = 0
    if os.path.isdir(corpus_dir):
        for fn in sorted(os.listdir(corpus_dir)):
            if not fn.endswith(".json"):
                continue
            path = os.path.join(corpus_dir, fn)
            data = json.load(open(path, encoding="utf-8"))
            if only_sub and data["sub"] != only_sub:
                continue
            n_corpus += 1
            try:
                v = replay_file(prop, path)
            except HarnessError as e:
                harness_errors.append(f"replay {fn}: {e}")
                continue
            if v is not None:
                if v.sig in known:
                    known_hits[v.sig] = known_hits.get(v.sig, 0) + 1
                else:
                    violations.append((data["sub"], v.sig, v.msg, path))

    # 2. generated search
    jobs = []
    for sub in mod.SUBCHECKS:
        if only_sub and sub.name != only_sub:
            continue
        for shard in range(sub.shards[tier]):
            jobs.append((mod.__name__, sub.name, shard, tier, seed, sorted(known), n_override))
    nproc = workers or min(16, len(jobs), os.cpu_count() or 1)
    results = []
    if nproc <= 1 or len(jobs) == 1:
        for j in jobs:
            results.append(run_job(j))
    else:
        ctx = mp.get_context("fork")
        with ctx.Pool(nproc, maxtasksperchild=1) as pool:
            for r in pool.imap_unordered(run_job, jobs, chunksize=1):
                results.append(r)
    results.sort(key=lambda r: (r[0], r[1]))

    per_sub = {}
    total = JobResult()
    seen_viol_sigs = {v[1] for v in violations}
    for subname, shard, r in results:
        ps = per_sub.setdefault(subname, {"evaluations": 0, "nontrivial": set(), "classes": {},
                                          "ambiguous": {}, "wall_s": 0.0, "shards": 0,
                                          "budget_exhausted": False})
        ps["evaluations"] += r.evaluations
        ps["nontrivial"] |= r.nontrivial_hashes
        ps["wall_s"] = max(ps["wall_s"], round(r.wall, 2))
        ps["shards"] += 1
        ps["budget_exhausted"] |= r.budget_exhausted
        if r.exhaustive:
            ps["exhaustive"] = True
        if r.engine:
            ps.setdefault("engine", []).append(r.engine)
        for k, v in r.classes.items():
            ps["classes"][k] = ps["classes"].get(k, 0) + v
            total.classes[k] = total.classes.get(k, 0) + v
        for k, v in r.ambiguous.items():
            ps["ambiguous"][k] = ps["ambiguous"].get(k, 0) + v
            total.ambiguous[k] = total.ambiguous.get(k, 0) + v
        for k, v in r.known_hits.items():
            known_hits[k] = known_hits.get(k, 0) + v
        total.evaluations += r.evaluations
        total.nontrivial_hashes |= {subname + ":" + h for h in r.nontrivial_hashes}
        if len(total.samples) < 8:
            for s in r.samples[:2]:
                total.samples.append({"sub": subname, "case": s})
        if r.harness_error:
            harness_errors.append(f"{subname}[{shard}]: {r.harness_error}")
        for sig, msg, case in r.failures:
            if sig in seen_viol_sigs:
                continue
            seen_viol_sigs.add(sig)
            path = write_replay(prop, subname, sig, msg, case)
            violations.append((subname, sig, msg, path))

    # 3. vacuity: every required class must have been produced
    gaps = []
    if not only_sub and not n_override:
        for sub in mod.SUBCHECKS:
            if sub.shards[tier] == 0:
                continue
            for label, minimum in sub.required.items():
                got = per_sub.get(sub.name, {}).get("classes", {}).get(label, 0)
                if got < minimum:
                    gaps.append(f"{sub.name}: class '{label}' produced {got} < {minimum}")

    wall = time.time() - t0
    subs_out = {}
    for k, ps in per_sub.items():
        subs_out[k] = {"evaluations": ps["evaluations"], "distinct_nontrivial": len(ps["nontrivial"]),
                       "classes": dict(sorted(ps["classes"].items())),
                       "skipped_or_accepted_ambiguous": ps["ambiguous"], "wall_s": ps["wall_s"],
                       "shards": ps["shards"]}
        if ps.get("exhaustive"):
            subs_out[k]["exhaustive"] = True
        if ps.get("engine"):
            subs_out[k]["engine"] = ps["engine"]
        if ps["budget_exhausted"]:
            subs_out[k]["shrink_budget_exhausted"] = True
    if not total.samples:
        total.samples = [{"note": "no non-trivial case was produced"}]
    evidence = {
        "property_id": prop,
        "tier": tier,
        "seed": int(seed),
        "level": "exploration",
        "coverage": {
            "evaluations": total.evaluations + n_corpus,
            "distinct_nontrivial": len(total.nontrivial_hashes),
            "rule": mod.RULE,
            "samples": total.samples,
            "classes": dict(sorted(total.classes.items())),
            "ambiguous": total.ambiguous,
            "known_finding_hits": known_hits,
            "regression_replays": n_corpus,
            "subchecks": subs_out,
            "coverage_gaps": gaps,
            "harness_errors": [h[:500] for h in harness_errors],
            "repo": REPO,
        },
        "assumptions": list(getattr(mod, "ASSUMPTIONS", [])),
        "wall_s": round(wall, 2),
        "violations": len(violations),
    }
    if only_sub is None:
        os.makedirs(os.path.join(OUT, "evidence"), exist_ok=True)
        with open(os.path.join(OUT, "evidence", f"{prop}.json"), "w", encoding="utf-8") as f:
            json.dump(evidence, f, indent=1, default=str)

    for sig, n in sorted(known_hits.items()):
        print(f"KNOWN-FINDING: property={prop} sig={sig} hits={n} {known.get(sig, '')}")
    for subname, sig, msg, path in violations:
        rel = os.path.relpath(path, VERIF) if path.startswith(VERIF) else path
        print(f"VIOLATION property={prop} replay={rel}")
        print(f"  signature: {sig}")
        print(f"  message:   {msg[:400]}")
    print(f"[{prop}] tier={tier} seed={seed} evaluations={evidence['coverage']['evaluations']} "
          f"distinct_nontrivial={evidence['coverage']['distinct_nontrivial']} "
          f"violations={len(violations)} wall={wall:.1f}s")
    for k, v in subs_out.items():
        print(f"   {k}: n={v['evaluations']} nt={v['distinct_nontrivial']} wall={v['wall_s']}s")
    if violations:
        return 1
    if harness_errors:
        for h in harness_errors:
            print("HARNESS-ERROR:", h[:3000], file=sys.stderr)
        return 2
    if gaps:
        for g in gaps:
            print("COVERAGE-GAP:", g, file=sys.stderr)
        return 2
    return 0
